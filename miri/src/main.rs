//! Small scenarios meant to run under Miri (`cargo +nightly miri run -- <scenario>`):
//! the interpreter's deadlock, data-race and undefined-behaviour detectors are the oracle.
//!
//!   close-race   threaded client: submit from another thread while close() races the event loop,
//!                then block on every result receiver (a receiver that can never be filled = deadlock)
//!   stop-cycle   threaded client: start / stop / start / close with a transport that never connects
//!   lru          engine + LRU outbound alias resolver (lru crate is all unsafe pointer code)
//!   decode       real decoder over hostile byte strings under 1-byte chunking
//!   encode       real encoder with 4-byte buffers

#[path = "../../harness/src/rng.rs"]
mod rng;
#[path = "../../harness/src/refmqtt.rs"]
#[allow(dead_code)]
mod refmqtt;

use gneiss_mqtt::alias::{OutboundAliasResolution, OutboundAliasResolverFactory};
use gneiss_mqtt::client::config::*;
use gneiss_mqtt::client::*;
use gneiss_mqtt::error::GneissError;
use gneiss_mqtt::mqtt::*;
use gneiss_mqtt::verif as gv;
use refmqtt as rf;
use std::sync::{Arc, Mutex};
use std::time::Duration;

struct NoStream;
impl std::io::Read for NoStream { fn read(&mut self, _: &mut [u8]) -> std::io::Result<usize> { Err(std::io::Error::new(std::io::ErrorKind::WouldBlock, "none")) } }
impl std::io::Write for NoStream { fn write(&mut self, b: &[u8]) -> std::io::Result<usize> { Ok(b.len()) } fn flush(&mut self) -> std::io::Result<()> { Ok(()) } }

fn threaded_client(connects: bool) -> SyncClientHandle {
    let mut cb = MqttClientOptions::builder();
    cb.with_base_reconnect_period(Duration::from_millis(1));
    cb.with_max_reconnect_period(Duration::from_millis(2));
    cb.with_reconnect_period_jitter(ExponentialBackoffJitterType::None);
    let mut co = ConnectOptions::builder();
    co.with_client_id("miri");
    let mut tb = ThreadedOptions::builder();
    tb.with_idle_service_sleep(Duration::from_millis(1));
    let factory: Arc<dyn Fn() -> Result<NoStream, GneissError> + Send + Sync> = Arc::new(move || if connects { Ok(NoStream) } else { Err(GneissError::new_other_error("refused")) });
    new_threaded_client(cb.build(), co.build(), tb.build(), factory)
}

fn publish(i: u8, qos: QualityOfService) -> PublishPacket {
    PublishPacket::builder("m/t".to_string(), qos).with_payload(vec![i; 3]).build()
}

fn close_race() {
    let client = threaded_client(false);
    client.start(None).unwrap();
    let mut rx = Vec::new();
    rx.push(client.publish(publish(1, QualityOfService::AtLeastOnce), None));
    let c2 = client.clone();
    let t = std::thread::spawn(move || {
        let mut out = Vec::new();
        for i in 0..3u8 { out.push(c2.publish(publish(10 + i, QualityOfService::AtLeastOnce), None)); std::thread::yield_now(); }
        out
    });
    client.close().unwrap();
    rx.push(client.publish(publish(2, QualityOfService::AtMostOnce), None));
    rx.extend(t.join().unwrap());
    // blocking: if a slot can never be filled the interpreter reports a deadlock
    let mut results = 0;
    for r in rx { let _ = r.recv(); results += 1; }
    println!("close-race: {} results received", results);
}

fn stop_cycle() {
    let client = threaded_client(false);
    let events: Arc<Mutex<Vec<String>>> = Arc::new(Mutex::new(Vec::new()));
    let e2 = events.clone();
    let listener: ClientEventListener = Arc::new(move |ev| { e2.lock().unwrap().push(format!("{}", ev).split(' ').next().unwrap_or("").to_string()); });
    client.start(Some(listener)).unwrap();
    std::thread::sleep(Duration::from_millis(3));
    client.stop(None).unwrap();
    client.start(None).unwrap();
    let r = client.publish(publish(1, QualityOfService::AtLeastOnce), None);
    client.stop(None).unwrap();
    client.close().unwrap();
    let _ = r.recv();
    println!("stop-cycle: events {:?}", events.lock().unwrap());
}

fn lru() {
    let mut co = ConnectOptions::builder();
    co.with_client_id("lru");
    let mut e = gv::Engine::new(gv::EngineConfig {
        connect_options: co.build(), offline_queue_policy: OfflineQueuePolicy::PreserveAll, ping_timeout: Duration::from_secs(10), protocol_mode: ProtocolMode::Mqtt5,
        post_reconnect_queue_drain_policy: PostReconnectQueueDrainPolicy::None, max_interrupted_retries: None, outbound_alias_resolver_factory: Some(OutboundAliasResolverFactory::new_lru_factory(3)),
    });
    let t = |ms: u64| Duration::from_millis(ms);
    let mut r = rng::Rng::new(7);
    for round in 0..2u64 {
        e.open(t(round * 100), t(round * 100 + 50)).unwrap();
        let mut buf: Vec<u8> = Vec::with_capacity(256);
        e.service(t(round * 100), &mut buf).unwrap();
        e.write_complete(t(round * 100)).unwrap();
        let connack = rf::encode(&rf::Packet::Connack(rf::Connack { topic_alias_maximum: Some(2 + round as u16 * 3), ..Default::default() }), true, &rf::Knobs::default());
        let (res, _) = e.incoming(t(round * 100), &connack);
        res.unwrap();
        let mut wire = Vec::new();
        for i in 0..24u64 {
            let topic = format!("a/{}", r.below(5));
            e.submit_publish(t(round * 100 + i), PublishPacket::builder(topic, QualityOfService::AtMostOnce).with_payload(vec![i as u8]).build(), Default::default(), round * 100 + i, None);
            buf.clear();
            e.service(t(round * 100 + i), &mut buf).unwrap();
            wire.extend_from_slice(&buf);
            if !buf.is_empty() { e.write_complete(t(round * 100 + i)).unwrap(); }
        }
        // replay the wire through a reference server-side alias table
        let mut table = std::collections::HashMap::new();
        let packets = rf::decode_all(&wire, true).expect("wire must be well formed");
        for p in packets {
            if let rf::Packet::Publish(p) = p {
                if let Some(a) = p.topic_alias {
                    if p.topic.is_empty() { assert!(table.contains_key(&a), "alias {} used before being bound", a); } else { table.insert(a, p.topic.clone()); }
                } else { assert!(!p.topic.is_empty()); }
            }
        }
        e.close(t(round * 100 + 40)).unwrap();
    }
    e.reset(t(1000));
    println!("lru: ok, {} completions", e.take_completions().len());
}

fn decode() {
    let mut r = rng::Rng::new(11);
    let mut total = 0;
    for i in 0..40u64 {
        let v5 = i % 2 == 0;
        let base = match i % 5 {
            0 => rf::encode(&rf::Packet::Connack(rf::Connack { assigned_client_id: Some("abc".into()), user_props: vec![("k".into(), "v".into())], ..Default::default() }), v5, &rf::Knobs::default()),
            1 => rf::encode(&rf::Packet::Publish(rf::Publish { qos: 1, packet_id: Some(7), topic: "t/x".into(), payload: vec![1, 2, 3], subscription_ids: vec![5, 300], ..Default::default() }), v5, &rf::Knobs::default()),
            2 => rf::encode(&rf::Packet::Suback(rf::Suback { packet_id: 3, codes: vec![0, 1, 0x80], reason_string: Some("r".into()), ..Default::default() }), v5, &rf::Knobs::default()),
            3 => rf::encode(&rf::Packet::Disconnect(rf::Disconnect { reason: 0x8B, server_reference: Some("other".into()), ..Default::default() }), true, &rf::Knobs::default()),
            _ => r.bytes(12),
        };
        let mut s = base.clone();
        if i % 3 != 0 && !s.is_empty() { let k = r.below(s.len() as u64) as usize; s[k] ^= 1 << r.below(8); }
        if i % 7 == 0 { s.truncate(s.len() / 2); }
        let chunks: Vec<&[u8]> = s.chunks(1).collect();
        let (p1, e1) = gv::decode(if v5 { ProtocolMode::Mqtt5 } else { ProtocolMode::Mqtt311 }, 0, &chunks);
        let (p2, e2) = gv::decode(if v5 { ProtocolMode::Mqtt5 } else { ProtocolMode::Mqtt311 }, 0, &[&s[..]]);
        assert_eq!(p1.len(), p2.len(), "chunking changed the number of packets");
        assert_eq!(e1.is_some(), e2.is_some(), "chunking changed the verdict");
        total += p1.len();
    }
    println!("decode: ok, {} packets decoded", total);
}

fn encode() {
    let none = OutboundAliasResolution { skip_topic: false, alias: None };
    let publish = PublishPacket::builder("enc/topic".to_string(), QualityOfService::ExactlyOnce).with_payload(vec![9; 40]).with_user_property(UserProperty::new("a".into(), "".into())).with_content_type("x".into()).build();
    let sub = SubscribePacket::builder().with_subscription_simple("f/+".into(), QualityOfService::AtLeastOnce).with_user_property(UserProperty::new("k".into(), "v".into())).build();
    let mut co = ConnectOptions::builder();
    co.with_client_id("").with_username("u").with_password(b"pw").with_will(PublishPacket::builder("w".into(), QualityOfService::AtMostOnce).with_payload(vec![1]).build());
    let cases = vec![
        gv::OutboundPacket::Publish { packet: publish, packet_id: 9, duplicate: true, topic_alias: None },
        gv::OutboundPacket::Subscribe { packet: sub, packet_id: 4 },
        gv::OutboundPacket::Connect { options: co.build(), connected_previously: false, client_id_override: None },
        gv::OutboundPacket::Pubrel(5),
    ];
    for (i, c) in cases.iter().enumerate() {
        for v5 in [true, false] {
            let mode = if v5 { ProtocolMode::Mqtt5 } else { ProtocolMode::Mqtt311 };
            let a = gv::encode(c, mode, none, &[4]).unwrap();
            let b = gv::encode(c, mode, none, &[4096]).unwrap();
            assert_eq!(a, b, "case {} depends on the buffer size", i);
            let decoded = rf::decode_all_compat(&a, v5).expect("must decode");
            assert_eq!(decoded.len(), 1);
        }
    }
    println!("encode: ok");
}

fn main() {
    let which = std::env::args().nth(1).unwrap_or_else(|| "all".to_string());
    match which.as_str() {
        "close-race" => close_race(),
        "stop-cycle" => stop_cycle(),
        "lru" => lru(),
        "decode" => decode(),
        "encode" => encode(),
        _ => { close_race(); stop_cycle(); lru(); decode(); encode(); }
    }
}
