#!/bin/bash
# Builds the verification harness offline from files on disk.
set -eu
HERE="$(cd "$(dirname "${BASH_SOURCE[0]}")" && pwd)"
export CARGO_NET_OFFLINE=true
cd "$HERE/harness"
cp /repo/Cargo.lock Cargo.lock
cargo build --release --offline 2>&1 | tail -n 3
cp /repo/Cargo.lock "$HERE/miri/Cargo.lock"
echo "setup ok"
