#!/usr/bin/env python3
"""usage: mutant_prompt.py <ID>[:suffix] ...   -> creates scratch worktree /tmp/mut/<ID><suffix> and prints the prompt file path.
The prompt gives an adversary sub-agent only the text of the property and its own worktree."""
import json, subprocess, sys, os
props = {}
for l in open('/verif/properties.jsonl'):
    p = json.loads(l); props[p['id']] = p
TMPL = '''You are helping test a verification effort by playing the adversary. You work ONLY inside the git worktree {wt} (a checkout of the Rust repository gneiss-mqtt: an MQTT 5 / 3.1.1 client library with a sans-IO protocol engine in gneiss-mqtt/src/protocol.rs, codec in encode.rs/decode.rs and mqtt/*.rs, validation in validate.rs, client state machine in client/mod.rs, tokio and threaded drivers under client/asynchronous and client/synchronous, AWS glue in gneiss-mqtt-aws). Do NOT read or touch /verif or /repo; do not use the network (there is none; always pass --offline to cargo).

Here is a semantic property the library is supposed to satisfy:

TITLE: {title}
STATEMENT: {statement}
QUANTIFIED OVER: {quant}
CODE ANCHORS: {files}

YOUR TASK: make ONE small, realistic source change (the kind of slip a maintainer could make in a refactor or "optimisation": an off-by-one, a dropped or reordered statement, a wrong branch, a missing reset, a swapped queue position, a condition that is slightly too weak/strong) somewhere in the library's non-test source code that BREAKS this property, such that:
  1. the workspace still compiles, and
  2. the repository's existing pinned test suite still passes completely: run `mkdir -p {wt}/target && /root/tools/run_pinned_tests.sh {wt}` and it must print `missing=0` (it takes a few minutes the first time because it builds the workspace), and
  3. the breakage needs something specific to manifest - a particular interleaving, a fault/crash at a particular point, a multi-step sequence of operations, an unusual input or configuration value, or two cooperating sites that each look fine alone - NOT something that ordinary use would expose immediately.
Do not edit any existing test or test-support code (anything under #[cfg(test)], gneiss-mqtt/src/testing/, or files named *tests*). Do not touch gneiss-mqtt/src/verif.rs or gneiss-mqtt-aws/src/verif.rs (a plumbing facade) - but you may use that facade in your demonstration if convenient.
{extra}
Then write a DEMONSTRATION: a new test (for example a new #[test] function in a NEW file such as gneiss-mqtt/src/testing/mutant_demo.rs wired in with a `#[cfg(test)] mod`, or an integration-style test using the existing ProtocolStateTestFixture in gneiss-mqtt/src/testing/protocol.rs, or a small example program) that FAILS with your change and PASSES without it. Verify both directions yourself (use `git stash` or apply/revert your source change).  Run a single test with e.g. `cd {wt} && cargo test --offline -p gneiss-mqtt --features testing,tokio,threaded <test_name>` (add other features if your test needs them).

DELIVERABLES - write these three files into {wt}/MUTANT/ :
  - patch.diff : the source change ONLY (output of `git diff` restricted to the non-test source files you changed; it must apply with `git apply` to a clean checkout of the worktree's HEAD)
  - demo.diff  : the demonstration test as a separate diff (new files / test wiring only; it must apply with `git apply` to a clean checkout on its own, and also together with patch.diff)
  - meta.json  : {{"property": "{pid}", "summary": "<one paragraph: what you changed and why it breaks the property>", "needs": "<what specific interleaving / fault point / sequence / input is required to manifest>", "demo_command": "<exact command that runs your demonstration>", "pinned_suite": "<the last line printed by run_pinned_tests.sh with your patch applied>"}}
Finally reply with a short summary (what you changed, how it manifests, the demo command and its two outcomes). Keep the change minimal (ideally 1-5 lines). If your first idea is caught by the pinned tests, try another one; the test suite is large but scripted around a cooperative broker, so behaviours that need odd timing, partial writes, reconnects, resumed sessions, hostile peers or unusual configuration values are good places to look.'''
os.makedirs('/tmp/mut', exist_ok=True)
for arg in sys.argv[1:]:
    pid, _, rest = arg.partition(':')
    suffix, _, extra = rest.partition(':')
    name = pid + suffix
    wt = f'/tmp/mut/{name}'
    if not os.path.isdir(wt):
        subprocess.check_call(['git', '-C', '/repo', 'worktree', 'add', '-q', '--detach', wt, 'HEAD'])
    p = props[pid]
    path = f'/tmp/mut/prompt_{name}.txt'
    open(path, 'w').write(TMPL.format(wt=wt, title=p['title'], statement=p['statement'], quant=p['quantifier']['text'], files=', '.join(p['anchors']['files']), pid=pid, extra=('\n' + extra + '\n') if extra else ''))
    print(path)
