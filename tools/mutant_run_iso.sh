#!/bin/bash
# usage: tools/mutant_run_iso.sh <patch.diff> <tier> <ids...>
# Like mutant_run.sh but leaves /repo alone: copies /repo and the harness to a scratch directory
# (/tmp/vmiso), applies the seeded change to the copy, builds the harness against the copy and runs the
# checks with the evidence redirected. The scratch tree (with its build output) is kept between calls to
# save rebuild time; remove it with `tools/mutant_run_iso.sh --clean` when done.
set -u
HERE="$(cd "$(dirname "${BASH_SOURCE[0]}")/.." && pwd)"
ISO=${VERIF_ISO_DIR:-/tmp/vmiso}
if [ "${1:-}" = "--clean" ]; then rm -rf "$ISO"; exit 0; fi
PATCH="$1"; TIER="$2"; shift 2
mkdir -p "$ISO"
rsync -a --delete --exclude target --exclude .git /repo/ "$ISO/repo/"
rsync -a --delete --exclude target "$HERE/harness/" "$ISO/harness/"
sed -i "s#/repo/#$ISO/repo/#g" "$ISO/harness/Cargo.toml"
cp /repo/Cargo.lock "$ISO/harness/Cargo.lock"
( cd "$ISO/repo" && git apply "$PATCH" ) || { echo "patch does not apply: $PATCH"; exit 2; }
( cd "$ISO/harness" && CARGO_NET_OFFLINE=true cargo build --release --offline >"$ISO/build.log" 2>&1 ) || { echo "build failed (see $ISO/build.log)"; tail -5 "$ISO/build.log"; exit 2; }
SCRATCH=$(mktemp -d /tmp/vmut.XXXXXX)
trap 'rm -rf "$SCRATCH"' EXIT
for id in "$@"; do
  out=$(VERIF_HOME="$HERE" VERIF_EVIDENCE_DIR="$SCRATCH" timeout 3000 "$ISO/harness/target/release/vcheck" check $id --tier $TIER 2>&1); rc=$?
  rules=$(echo "$out" | grep -o "rule=[A-Za-z0-9.#_-]*" | sort | uniq -c | tr '\n' ' ')
  inc=$(echo "$out" | grep -c "^INCONCLUSIVE")
  echo "$id rc=$rc inconclusive_lines=$inc $rules"
done
