#!/bin/bash
# Runs the repository's pinned suite with the verif guard OFF and checks that every test in
# BASELINE.json's stable_pass list still passes (junit report of the pinned nextest profile).
set -u
cd /repo || exit 2
export CARGO_NET_OFFLINE=true
JUNIT=/repo/target/nextest/pb/junit.xml
rm -f "$JUNIT"
CFG=/w/lib/nextest.toml
if [ ! -f "$CFG" ]; then
  CFG=$(mktemp /root/.nextest.XXXXXX.toml)
  cat >"$CFG" <<'TOML'
[profile.pb]
fail-fast = false
retries = 0
status-level = "fail"
failure-output = "never"
success-output = "never"
slow-timeout = { period = "60s", terminate-after = 5 }
[profile.pb.junit]
path = "junit.xml"
TOML
fi
cargo nextest run --workspace --no-fail-fast --tool-config-file "pb:$CFG" --profile pb --test-threads 8 --offline >/dev/null 2>&1
python3 - "$JUNIT" <<'PY'
import json, sys
import xml.etree.ElementTree as ET
base = json.load(open('/root/.vp/BASELINE.json'))
want = set(base['stable_pass'])
try:
    root = ET.parse(sys.argv[1]).getroot()
except Exception as e:
    print("baseline: no junit report:", e)
    sys.exit(2)
passed = set()
for tc in root.iter('testcase'):
    bad = any(ch.tag in ('failure', 'error') for ch in tc)
    if not bad:
        passed.add(tc.get('classname') + '::' + tc.get('name'))
missing = sorted(want - passed)
print(f"baseline stable_pass={len(want)} passed_now={len(want & passed)} missing={len(missing)}")
for m in missing[:40]:
    print("MISSING", m)
sys.exit(0 if not missing else 1)
PY
