#!/usr/bin/env python3
import subprocess, re
t = subprocess.check_output(['python3', '/verif/tools/seeded_table.py'], text=True)
p = '/verif/DESIGN.md'
s = open(p).read()
s = re.sub(r'<!-- seeded-table-begin -->.*<!-- seeded-table-end -->', '<!-- seeded-table-begin -->\n' + t + '<!-- seeded-table-end -->', s, flags=re.S)
open(p, 'w').write(s)
