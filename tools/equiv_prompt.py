import json, subprocess, sys, os
props=[json.loads(l) for l in open('/verif/properties.jsonl')]
stm="\n".join(f"{p['id']} - {p['title']}: {p['statement']}" for p in props)
TMPL='''You are helping test a verification effort. You work ONLY inside the git worktree {wt} (a checkout of the Rust repository gneiss-mqtt: an MQTT 5 / 3.1.1 client library with a sans-IO protocol engine in gneiss-mqtt/src/protocol.rs, codec in encode.rs/decode.rs and mqtt/*.rs, validation in validate.rs, alias resolvers in alias.rs, client state machine in client/mod.rs, tokio and threaded drivers under client/asynchronous and client/synchronous, AWS glue in gneiss-mqtt-aws). Do NOT read or touch /verif or /repo; do not use the network (there is none; always pass --offline to cargo). Never use pkill/killall with broad patterns; only kill process ids you started.

Somebody has built runtime monitors that are supposed to raise an alarm exactly when one of the 20 properties below is violated. Your job is to probe for FALSE ALARMS: write source changes that DO change the library's observable behaviour or internal workings, but in ways that every one of the 20 properties still allows. An over-strict monitor (one that pins down more than the property says) would wrongly flag such a change.

THE PROPERTIES (all must still hold after each of your changes):
{stm}

FOCUS AREA for you: {focus}

YOUR TASK: produce THREE independent changes (each applies on its own to a clean checkout), each small (1-15 lines) and realistic (a refactor, a performance tweak, a different-but-legal choice), each of which changes behaviour that an outside observer (bytes on the wire, timing of internal steps, order of unrelated things, error texts, internal container contents) could notice, while all 20 properties still hold. Examples of the kind of thing meant (do not just copy these): deliver an operation's result in the next service call instead of immediately; send PINGREQ a little earlier than strictly needed; choose packet ids in a different (still legal) order; fail an operation with a different error kind where the property only says "an error"; process independent queues in a different order where no property fixes the order; emit acknowledgements in the same service call vs the next one; change the wording of an error message; use a different but equally valid encoding choice (e.g. always include an optional reason code). Do NOT make changes that break any property, and do not edit tests or test-support code (anything under #[cfg(test)], gneiss-mqtt/src/testing/, files named *tests*) nor gneiss-mqtt/src/verif.rs / gneiss-mqtt-aws/src/verif.rs.

For each change: the workspace must compile and the pinned test suite must still pass: `mkdir -p {wt}/target && /root/tools/run_pinned_tests.sh {wt}` must print `missing=0` (3-30 minutes; wall-clock tests named client_reconnect_with_backoff* can flake on a loaded machine - if one is the only missing test, re-run it alone). If a candidate change breaks pinned tests, drop it and find another. To save time you may test two or three candidate changes together in one suite run and only separate them if something fails.

DELIVERABLES - write into {wt}/EQUIV/ : change1.diff, change2.diff, change3.diff (each the output of `git diff` for that change alone against HEAD; each must apply with `git apply` to a clean checkout) and notes.json: a list of three objects {{"file": "changeN.diff", "what": "<what changed>", "observable_difference": "<what an observer could notice>", "why_properties_still_hold": "<argument, naming the properties that come closest>", "pinned_suite": "<last line printed by run_pinned_tests.sh>"}}. Finally reply with a short summary.'''
os.makedirs('/tmp/mut',exist_ok=True)
for arg in sys.argv[1:]:
    name,_,focus=arg.partition(':')
    wt=f'/tmp/mut/{name}'
    if not os.path.isdir(wt): subprocess.check_call(['git','-C','/repo','worktree','add','-q','--detach',wt,'HEAD'])
    open(f'/tmp/mut/prompt_{name}.txt','w').write(TMPL.format(wt=wt,stm=stm,focus=focus))
    print(f'/tmp/mut/prompt_{name}.txt')
