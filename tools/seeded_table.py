#!/usr/bin/env python3
"""Prints the markdown table 'seeded change -> checks that caught it' from seeded/*/meta.json and result-*.txt."""
import json, os, re, glob
rows = []
for d in sorted(glob.glob('/verif/seeded/*')):
    n = os.path.basename(d)
    try: m = json.load(open(d + '/meta.json'))
    except Exception: continue
    caught, missed = [], []
    for f in sorted(glob.glob(d + '/result-*.txt')):
        tier = re.search(r'result-(\w+)\.txt', f).group(1)
        for l in open(f):
            mm = re.match(r'(C\d+) rc=(\d+) inconclusive_lines=(\d+)\s*(.*)', l)
            if not mm: continue
            cid, rc, inc, rules = mm.groups()
            rl = sorted(set(re.findall(r'rule=([A-Za-z0-9.]+)', rules)))
            if rc == '1': caught.append(f"{cid} {tier}: " + ", ".join(rl))
            elif rc == '0': missed.append(f"{cid} {tier}")
            else: missed.append(f"{cid} {tier} (rc={rc})")
    s = m.get('summary', '') or m.get('what', '')
    s = s.split('. ')[0][:170]
    if n.startswith('equiv-'):
        nsilent = len(missed)
        rows.append(f"| {n} | (probe) | {s} | {'; '.join(caught) or '-'} | {nsilent} of 20 checks silent" + ('' if not caught else '; see meta.json assessment') + " |")
        continue
    rows.append(f"| {n} | {m.get('property')} | {s} | {'; '.join(caught) or '-'} | {'; '.join(missed) or '-'} |")
print("| seeded change | property | what it does (first sentence of meta.json) | caught by (rules that fired) | silent (as expected or accepted) |")
print("|---|---|---|---|---|")
print("\n".join(rows))
