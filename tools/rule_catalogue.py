#!/usr/bin/env python3
"""Prints the catalogue of monitor rules (grouped by property) found in the harness sources."""
import re, glob, collections
rules = collections.defaultdict(set)
for f in glob.glob('/verif/harness/src/*.rs'):
    for m in re.finditer(r'"(C\d\d)\.([A-Za-z0-9]+)-([a-z0-9-]+)"', open(f).read()):
        rules[m.group(1)].add((m.group(2), m.group(3)))
def key(t):
    m = re.match(r'([A-Za-z]+)(\d+)([a-z]*)', t[0]); return (m.group(1), int(m.group(2)), m.group(3)) if m else (t[0], 0, '')
for p in sorted(rules):
    print(f"* **{p}**: " + "; ".join(f"{a} {b.replace('-', ' ')}" for a, b in sorted(rules[p], key=key)))
