#!/bin/bash
# usage: tools/mutant_matrix.sh <tier> [seeded-dir-names...]   (default: all of seeded/*)
# For each seeded change: apply to /repo, run the checks named in meta.json "checks_to_run", restore /repo,
# and write seeded/<name>/result-<tier>.txt.  Must not run concurrently with anything else that uses /repo.
HERE="$(cd "$(dirname "${BASH_SOURCE[0]}")/.." && pwd)"
TIER="$1"; shift
NAMES="$@"; [ -z "$NAMES" ] && NAMES=$(ls "$HERE/seeded")
for n in $NAMES; do
  d="$HERE/seeded/$n"; [ -f "$d/patch.diff" ] || continue
  ids=$(python3 -c "import json;print(' '.join(json.load(open('$d/meta.json'))['checks_to_run']))")
  echo "== $n ($ids)"
  "$HERE/tools/${MUTANT_RUNNER:-mutant_run.sh}" "$d/patch.diff" "$TIER" $ids | tee "$d/result-$TIER.txt"
done
