#!/bin/bash
# usage: tools/sweep.sh <tier> "<seeds>" [ids...]   — runs checks at several seeds, prints every non-clean line
HERE="$(cd "$(dirname "${BASH_SOURCE[0]}")/.." && pwd)"
TIER="${1:-quick}"; SEEDS="${2:-1 2 3}"; shift 2
IDS="$*"; [ -z "$IDS" ] && IDS=$(python3 -c "import json;print(' '.join(c['property_id'] for c in json.load(open('$HERE/MANIFEST.json'))['checks']))")
for s in $SEEDS; do
  for id in $IDS; do
    out=$(VERIF_SEED=$s "$HERE/check" $id --tier $TIER 2>&1); rc=$?
    echo "seed=$s $id rc=$rc $(echo "$out" | grep SUMMARY | sed 's/.*evaluations/evaluations/')"
    if [ $rc -ne 0 ]; then echo "$out" | grep -v "^KNOWN\|^SUMMARY" | cut -c1-400 | head -12; fi
  done
done
