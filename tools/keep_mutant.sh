#!/bin/bash
# usage: keep_mutant.sh <worktree-name under /tmp/mut> <seeded-name> <checks_to_run...>
# Stores a confirmed seeded change (after /root/tools/verify_mutant.sh printed its SUMMARY) and removes the worktree.
W="$1"; N="$2"; shift 2
S=$(grep "SUMMARY /tmp/mut/$W " /root/verify_batch*.log | tail -1)
echo "$S" | grep -q "demo_without_rc=0 demo_with_rc=101 pinned_rc=0" || { echo "not confirmed: $S"; exit 1; }
D=/verif/seeded/$N; mkdir -p $D
cp /tmp/mut/keep/$W/patch.diff /tmp/mut/keep/$W/demo.diff $D/
python3 - "$W" "$D" "$@" <<'PY'
import json,sys
w,d,*checks=sys.argv[1:]
m=json.load(open(f"/tmp/mut/keep/{w}/meta.json"))
m["origin"]="adversary sub-agent given only the property text and a scratch worktree"
m["demo_command"]=m["demo_command"].replace(f"/tmp/mut/{w}","<worktree>")
m["confirmed"]={"how":"scratch worktree /tmp/mut/%s: demo.diff applied alone -> demo passes; patch.diff added -> demo fails; demo removed, patch kept -> pinned suite (669) passes"%w,
 "demo_without_patch_rc":0,"demo_with_patch_rc":101,"pinned_suite_with_patch":"669/669"}
m["checks_to_run"]=checks
json.dump(m,open(f"{d}/meta.json","w"),indent=1)
PY
git -C /repo worktree remove --force /tmp/mut/$W && rm -rf /tmp/mut/keep/$W /tmp/mut/prompt_$W.txt
echo "kept $N"
