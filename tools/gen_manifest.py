#!/usr/bin/env python3
"""Generates /verif/MANIFEST.json from the table below (single source of truth)."""
import json, subprocess, sys

ENGINE = "engine-sim"
CHECKS = {
    # id: (level, technique, design_ref, level_text, level_note)
    "C01": ("exploration", "runtime monitoring: completion/ack-token monitor over seeded simulations of the real engine",
            "DESIGN.md 4/C01",
            "Every completion callback of every simulated history is judged online (exactly once, own acknowledgement by id+token, nothing tracked after reset). Held on the executions produced, not a proof.",
            "facade plumbing, reference codec/broker, simulator driver disciplines"),
    "C04": ("fault_enumeration", "runtime monitoring: per-operation delivery-protocol automaton over the reference-decoded wire, disconnect forced at every step of each schedule",
            "DESIGN.md 4/C04",
            "A transport failure is injected at every recorded step of each seeded base schedule (sampled in quick) and the wire of all connections is judged by the per-operation automaton.",
            "facade plumbing, reference codec/broker; positions are those of the generated schedules"),
    "C05": ("exploration", "runtime monitoring: reference receiver model (FIFO ack obligations, QoS2 id set) over simulated inbound traffic, at the engine and again at the client implementation's listener boundary",
            "DESIGN.md 4/C05", "Inbound PUBLISH/PUBREL sequences from the reference broker; packet events and acks on the wire are compared with a reference receiver; the same comparison is made on what MqttClientImpl hands to listeners when reads carry several packets and some fail.", "facade plumbing, reference codec/broker"),
    "C06": ("exploration", "runtime monitoring: id-in-use table over the decoded wire + reserved-id count at quiescence, incl. >65535-operation runs",
            "DESIGN.md 4/C06", "Packet ids on the wire are tracked per session; leak check at quiescence; long runs cross the 16-bit wrap.", "facade plumbing, reference codec/broker"),
    "C07": ("exploration", "runtime monitoring: per-connection handshake automaton + expected CONNECT + expected negotiated settings",
            "DESIGN.md 4/C07", "Handshake histories under all reply kinds, buffer sizes and rejoin policies are judged by a wire automaton and an independent settings merge.", "facade plumbing, reference codec/broker"),
    "C08": ("exploration", "runtime monitoring: audit service (work without reported time), bounded progress at quiescence under a timer-only driver, spin detector",
            "DESIGN.md 4/C08", "Lost wake-ups are made visible by a driver that services only at reported times; liveness is restated as progress at quiescence of a finite schedule.", "simulator driver disciplines mirror the real drivers"),
    "C09": ("exploration", "runtime monitoring: broker-side in-flight counter and interrupted-set tracker",
            "DESIGN.md 4/C09", "In-flight QoS>0 flows counted from the decoded wire against the announced Receive Maximum; slow start checked in its literal reading.", "facade plumbing, reference codec/broker"),
    "C10": ("exploration", "runtime monitoring: first-appearance order vs submission index per connection",
            "DESIGN.md 4/C10", "Order of first appearances in long, interrupted histories.", "facade plumbing, reference codec/broker"),
    "C11": ("exploration", "runtime monitoring: catch_unwind around every entry point under a chaotic driver and hostile broker; halted-is-absorbing; honest-broker-never-accused",
            "DESIGN.md 4/C11", "Panics, post-error behaviour and false accusations are observed over hostile and honest executions.", "honest-broker definition in DESIGN.md"),
    "C14": ("exploration", "runtime monitoring on a virtual clock: transmission gaps, ping deadlines, live-peer rule",
            "DESIGN.md 4/C14", "Keep-alive timing judged on virtual time with a prompt driver.", "writes complete instantly in this workload"),
    "C15": ("fault_enumeration", "runtime monitoring: policy table x position tracker, disconnect forced at every step of each schedule",
            "DESIGN.md 4/C15", "4 policies x 5 kinds; a transport failure is injected at every recorded step (sampled in quick) so that every position is hit.", "policy table transcribed from the documentation of OfflineQueuePolicy"),
    "C16": ("exploration", "runtime monitoring: independent spec validator over submissions and over the wire under random CONNACK capabilities",
            "DESIGN.md 4/C16", "Tri-state validator (must accept / must reject / unspecified) applied to what was submitted and what was transmitted.", "validator written from the OASIS text"),
    "C17": ("exploration", "runtime monitoring: reference server-side and client-side alias tables replayed over the wire / surfaced publishes",
            "DESIGN.md 4/C17", "Alias use in both directions is replayed through reference tables.", "facade plumbing, reference codec/broker"),
    "C18": ("exploration", "runtime monitoring on a virtual clock: deadline = full-write time + T; interruption counter",
            "DESIGN.md 4/C18", "Ack timeouts and retry limits judged on virtual time.", "facade plumbing, reference codec/broker"),
}

CHECKS.update({
    "C02": ("exploration", "runtime monitoring: differential fuzzing of the real encoder against an independent strict decoder (+ buffer-schedule differential), and strict decoding of every packet emitted in engine simulations",
            "DESIGN.md 4/C02", "Generated packets of every client-emitted kind are encoded by the real encoder under several buffer-capacity schedules and judged by a reference decoder; the wire of engine simulations is judged the same way.", "reference decoder written from the OASIS texts"),
    "C03": ("exploration", "runtime monitoring: differential fuzzing of the real decoder against an independent encoder, chunking differential, mutation/garbage robustness, early size rejection",
            "DESIGN.md 4/C03", "Reference-encoded server packets (all reason codes, property orders, elisions), mutated and random streams are decoded under many partitions; results are compared across partitions and with the reference content.", "reference encoder written from the OASIS texts"),
})

CHECKS.update({
    "C12": ("exploration", "runtime monitoring: regular-language monitor over the client event stream + loop-death and stop-at-quiescence rules, on a transliterated driver loop around the real client implementation",
            "DESIGN.md 4/C12", "Seeded start/stop/close/publish requests at every point of seeded transport histories; event stream, loop death and stop-never-stops are judged at quiescence of the finite script.", "the simulator loop is a transliteration of the two drivers' loops; corroborated on the real threaded client and on the real tokio client (current-thread runtime)"),
    "C19": ("exploration", "runtime monitoring: back-off waits of the real client implementation against the closed form, lifetime histories with bracketed clock readings",
            "DESIGN.md 4/C19", "Waits compared with min(base'*2^k, max'); reset rule judged only on samples whose lifetime bracket lies entirely on one side of the stability period.", "Instant::now() inside the implementation is bracketed, not controlled"),
    "C20": ("exploration", "runtime monitoring: independent query-string parser / percent-decoder and field-by-field comparison over the options the AWS builder hands on",
            "DESIGN.md 4/C20", "Generated custom-auth inputs and user options; the builder's output is read through the verif accessor.", "accessor calls the builder's own private functions"),
})

CHECKS.update({
    "C13": ("exploration", "runtime monitoring: the real tokio and threaded clients (public API; the threaded one also over the websocket stream wrapper) and the wrapper alone on scripted in-memory transports; byte-stream equality via the reference decoder, one-result-per-operation (receiver / future / callback / synchronous error) at provable loop exit; Miri schedules of the blocking API in the thorough tier",
            "DESIGN.md 4/C13", "Real drivers under partial writes, would-block, read fragmentation, EOF/errors, refused connections and stop/close races; the websocket wrapper under arbitrary frame sizes and arrival patterns.", "wall clock only as watchdog; 'never resolves' is judged once a probe submit proves the event loop is gone"),
})

PENDING = {
    "C12": "check under construction in this session (client-impl simulator + real drivers)",
    "C13": "check under construction in this session (real drivers on scripted transports)",
    "C19": "check under construction in this session (back-off sequences)",
    "C20": "check under construction in this session (AWS builder facade)",
}


def hook_commits():
    try:
        out = subprocess.check_output(["git", "-C", "/repo", "log", "--format=%H %s"], text=True)
    except Exception:
        return []
    return [l.split()[0] for l in out.splitlines() if "verif" in l.lower() and not l.split(" ", 1)[1].startswith("fix:")]


def main():
    extra = {}
    try:
        extra = json.load(open("/verif/tools/manifest_extra.json"))
    except Exception:
        pass
    checks = []
    table = dict(CHECKS)
    table.update({k: tuple(v) for k, v in extra.get("checks", {}).items()})
    pending = dict(PENDING)
    for k in table:
        pending.pop(k, None)
    for pid in sorted(table):
        level, technique, ref, text, note = table[pid]
        checks.append({
            "property_id": pid,
            "quick_cmd": f"./check {pid} --tier quick",
            "thorough_cmd": f"./check {pid} --tier thorough",
            "evidence_file": f"/verif/evidence/{pid}.json",
            "replay_cmd_template": "./check --replay {path}",
            "engine": ENGINE,
            "level_claimed": {"category": level, "text": text, "design_ref": ref},
            "level_note": note,
            "technique": technique,
        })
    manifest = {
        "version": 1,
        "setup_cmd": "./setup.sh",
        "hooks": {
            "guard": "cargo feature `verif` (gneiss-mqtt and gneiss-mqtt-aws), off by default",
            "enable": "the harness depends on /repo/gneiss-mqtt and /repo/gneiss-mqtt-aws by path with features = [\"verif\", ...]; every check rebuilds from the working tree",
            "baseline_off_cmd": "/verif/tools/baseline_off.sh",
            "source_commits": hook_commits(),
            "add_only": True,
        },
        "engines": [
            {"name": ENGINE, "path": "/verif/harness", "serves_properties": sorted(table), "kind_free_text": "Rust harness: discrete-event simulation of the real engine behind the verif facade, reference codec/broker/validator, online monitors; real tokio/threaded drivers on scripted transports; Miri jobs"},
        ],
        "checks": checks,
        "not_applicable": [{"property_id": k, "reason": v} for k, v in sorted(pending.items())],
        "notes": "All checks are runtime monitors over executions of the real code. Known genuine defects that are recorded rather than repaired are listed in /verif/known_findings.json.",
    }
    json.dump(manifest, open("/verif/MANIFEST.json", "w"), indent=1)
    print("wrote MANIFEST.json with", len(checks), "checks;", len(pending), "not_applicable")


if __name__ == "__main__":
    main()
