#!/bin/bash
# usage: tools/mutant_run.sh <patch.diff> <tier> <ids...>
# Applies a seeded change to /repo, runs the given checks, and always restores /repo afterwards.
# Prints one line per check: "<id> rc=<rc> <rules that fired>".
set -u
HERE="$(cd "$(dirname "${BASH_SOURCE[0]}")/.." && pwd)"
PATCH="$1"; TIER="$2"; shift 2
if ! git -C /repo diff --quiet; then echo "refusing: /repo has uncommitted changes"; exit 2; fi
if ! git -C /repo apply --check "$PATCH" 2>/dev/null; then echo "patch does not apply: $PATCH"; exit 2; fi
git -C /repo apply "$PATCH"
SCRATCH=$(mktemp -d /tmp/vmut.XXXXXX)
trap 'rm -rf "$SCRATCH"; git -C /repo checkout -- . ; git -C /repo clean -fdq -- gneiss-mqtt gneiss-mqtt-aws 2>/dev/null' EXIT
for id in "$@"; do
  out=$(VERIF_EVIDENCE_DIR="$SCRATCH" "$HERE/check" $id --tier $TIER 2>&1); rc=$?
  rules=$(echo "$out" | grep -o "rule=[A-Za-z0-9.#_-]*" | sort | uniq -c | tr '\n' ' ')
  inc=$(echo "$out" | grep -c "^INCONCLUSIVE")
  echo "$id rc=$rc inconclusive_lines=$inc $rules"
done
