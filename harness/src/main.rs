mod awscheck;
mod broker;
mod check;
mod clientsim;
mod codecfuzz;
mod expect;
mod miri;
mod fuzz;
mod monitors;
mod profiles;
mod realdrv;
mod refmqtt;
mod report;
mod rng;
mod runner;
mod sim;
mod specval;
mod valfuzz;
mod world;

fn arg_value(args: &[String], name: &str) -> Option<String> {
    args.iter().position(|a| a == name).and_then(|i| args.get(i + 1).cloned())
}

fn main() {
    runner::install_panic_hook();
    let args: Vec<String> = std::env::args().collect();
    if args.len() < 2 {
        eprintln!("usage: vcheck check <ID> [--tier quick|thorough] [--seed N] [--budget SECONDS] | vcheck replay <file>");
        std::process::exit(2);
    }
    let code = match args[1].as_str() {
        "check" => {
            let id = args.get(2).cloned().unwrap_or_default();
            let tier = arg_value(&args, "--tier").or_else(|| std::env::var("VERIF_TIER").ok()).unwrap_or_else(|| "quick".to_string());
            let seed: u64 = arg_value(&args, "--seed").or_else(|| std::env::var("VERIF_SEED").ok()).and_then(|s| s.parse().ok()).unwrap_or(20260923);
            let budget: u64 = arg_value(&args, "--budget").and_then(|s| s.parse().ok()).unwrap_or(if tier == "thorough" { 2400 } else { 600 });
            match id.as_str() {
                "C17" => match check::engine_report("C17", &tier, seed, budget) {
                    Some(mut rep) => {
                        if tier == "thorough" || std::env::var("VERIF_MIRI").is_ok() { miri::add_miri(&mut rep, &[("lru", 8)]); }
                        rep.finish()
                    }
                    None => 3,
                },
                "C05" => match check::engine_report("C05", &tier, seed, budget) {
                    Some(rep) => rep.merge(clientsim::c05_client_level_report(&tier, seed), "engine_simulation", "client_level").finish(),
                    None => 3,
                },
                "C01" | "C04" | "C06" | "C07" | "C08" | "C09" | "C10" | "C11" | "C14" | "C15" | "C18" => check::run_engine_check(&id, &tier, seed, budget),
                "C02" => codecfuzz::run_c02(&tier, seed),
                "C16" => valfuzz::run_c16(&tier, seed),
                "C12" => clientsim::run_c12(&tier, seed),
                "C20" => awscheck::run_c20(&tier, seed),
                "C13" => realdrv::run_c13(&tier, seed),
                "C19" => clientsim::run_c19(&tier, seed),
                "C03" => codecfuzz::run_c03(&tier, seed),
                _ => { println!("INCONCLUSIVE property={} reason=unknown-check", id); 3 }
            }
        }
        "replay" => check::run_replay(args.get(2).map(|s| s.as_str()).unwrap_or("")),
        _ => { eprintln!("unknown command"); 2 }
    };
    std::process::exit(code);
}
