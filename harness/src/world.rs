//! World model: everything derivable from the recorded steps — decoded client→server packets per
//! connection (emitted into the driver buffer / written to the transport), decoded server→client
//! packets as delivered, the per-operation history.  Pure function of the step records.

use crate::refmqtt as rf;
use crate::runner::*;
use gneiss_mqtt::verif::EngineState;
use std::collections::HashMap;

pub const TAG_MAGIC: u8 = b'T';
pub const TOKEN_MAGIC: u8 = b'S';

pub fn tagged_payload(tag: u64, extra: &[u8]) -> Vec<u8> {
    let mut v = vec![TAG_MAGIC];
    v.extend_from_slice(&tag.to_be_bytes());
    v.extend_from_slice(extra);
    v
}

pub fn payload_tag(payload: &[u8]) -> Option<u64> {
    if payload.len() >= 9 && payload[0] == TAG_MAGIC {
        Some(u64::from_be_bytes(payload[1..9].try_into().unwrap()))
    } else {
        None
    }
}

pub fn token_payload(token: u64, extra: &[u8]) -> Vec<u8> {
    let mut v = vec![TOKEN_MAGIC];
    v.extend_from_slice(&token.to_be_bytes());
    v.extend_from_slice(extra);
    v
}

pub fn payload_token(payload: &[u8]) -> Option<u64> {
    if payload.len() >= 9 && payload[0] == TOKEN_MAGIC {
        Some(u64::from_be_bytes(payload[1..9].try_into().unwrap()))
    } else {
        None
    }
}

pub fn tagged_filter(tag: u64, suffix: &str) -> String {
    format!("t/{}/{}", tag, suffix)
}

pub fn filter_tag(filter: &str) -> Option<u64> {
    let mut it = filter.split('/');
    if it.next()? != "t" { return None; }
    it.next()?.parse().ok()
}

#[derive(Clone, Copy, Debug, PartialEq, Eq, Hash)]
pub enum OpKind { Pub0, Pub1, Pub2, Sub, Unsub }

impl OpKind {
    pub fn name(&self) -> &'static str {
        match self { OpKind::Pub0 => "publish-qos0", OpKind::Pub1 => "publish-qos1", OpKind::Pub2 => "publish-qos2", OpKind::Sub => "subscribe", OpKind::Unsub => "unsubscribe" }
    }
    pub fn is_publish(&self) -> bool { matches!(self, OpKind::Pub0 | OpKind::Pub1 | OpKind::Pub2) }
    pub fn needs_ack(&self) -> bool { !matches!(self, OpKind::Pub0) }
}

pub fn op_kind(op: &OpSpec) -> OpKind {
    match &op.body {
        OpBody::Publish(p) => match p.qos { 0 => OpKind::Pub0, 1 => OpKind::Pub1, _ => OpKind::Pub2 },
        OpBody::Subscribe(_) => OpKind::Sub,
        OpBody::Unsubscribe(_) => OpKind::Unsub,
    }
}

/// does the offline queue policy preserve this kind?
pub fn policy_preserves(policy: u8, kind: OpKind) -> bool {
    match policy {
        0 => true,
        1 => kind != OpKind::Pub0,
        2 => matches!(kind, OpKind::Pub1 | OpKind::Pub2),
        _ => false,
    }
}

#[derive(Clone, Debug, PartialEq, Eq)]
pub enum WireKind { Publish, Pubrel, Subscribe, Unsubscribe }

/// One complete packet of an operation in the emitted stream of a connection
#[derive(Clone, Debug)]
pub struct Appearance {
    pub conn: usize,
    pub kind: WireKind,
    pub packet_id: u16,
    pub dup: bool,
    pub emitted_step: usize,
    pub emitted_time: u64,
    /// step at which the last byte reached the transport
    pub written_step: Option<usize>,
    /// position among the packets of the connection's emitted stream
    pub seq: usize,
    /// index into conn.emitted
    pub packet_index: usize,
}

#[derive(Clone, Debug)]
pub struct AckDelivery {
    pub conn: usize,
    pub step: usize,
    pub time: u64,
    pub kind: &'static str,
    pub packet_id: u16,
    pub reason: u8,
}

#[derive(Clone, Debug)]
pub struct OpInfo {
    pub tag: u64,
    pub kind: OpKind,
    pub index: usize,
    pub spec: OpSpec,
    pub submit_step: usize,
    pub submit_time: u64,
    pub submit_state: EngineState,
    /// rejected by the submission-time validation; never reached the engine
    pub rejected_at_submit: Option<(String, String)>,
    pub entries: usize,
    pub completions: Vec<(usize, u64, OutcomeView)>,
    pub appearances: Vec<Appearance>,
    pub acks: Vec<AckDelivery>,
    /// number of Close events that found the operation fully emitted and unresolved
    pub interruptions: u32,
    /// a successful PUBREC has been delivered (since the last restart)
    pub pubrec_received: bool,
    /// a PUBREC for this operation was part of a delivery that failed part-way: the engine may or may not have processed it
    pub pubrec_uncertain: bool,
    /// connection index of the last no-session restart (appearances before it are forgotten)
    pub restart_conn: Option<usize>,
}

impl OpInfo {
    pub fn resolved(&self) -> bool { !self.completions.is_empty() || self.rejected_at_submit.is_some() }
    pub fn resolved_before(&self, step: usize) -> bool {
        self.rejected_at_submit.is_some() || self.completions.iter().any(|(s, _, _)| *s < step)
    }
    pub fn appearances_on(&self, conn: usize) -> impl Iterator<Item = &Appearance> {
        self.appearances.iter().filter(move |a| a.conn == conn)
    }
    /// appearances since the last no-session restart
    pub fn live_appearances(&self) -> impl Iterator<Item = &Appearance> {
        let from = self.restart_conn.unwrap_or(0);
        self.appearances.iter().filter(move |a| a.conn >= from)
    }
}

#[derive(Clone, Debug)]
pub struct WirePacket {
    pub packet: rf::Packet,
    pub start: usize,
    pub end: usize,
    pub emitted_step: usize,
    pub emitted_time: u64,
    pub written_step: Option<usize>,
    pub written_time: Option<u64>,
    pub tag: Option<u64>,
}

#[derive(Clone, Debug)]
pub struct InboundPacket {
    pub packet: rf::Packet,
    pub step: usize,
    pub time: u64,
}

pub struct ConnInfo {
    pub index: usize,
    pub open_step: usize,
    pub open_time: u64,
    pub deadline_ms: u64,
    pub close_step: Option<usize>,
    pub close_time: Option<u64>,
    pub emitted_decoder: rf::StreamDecoder,
    pub emitted_bytes: usize,
    pub written_bytes: usize,
    pub emitted: Vec<WirePacket>,
    /// number of packets of `emitted` that have been completely written
    pub written_count: usize,
    pub inbound_decoder: rf::StreamDecoder,
    pub inbound: Vec<InboundPacket>,
    pub inbound_bytes: usize,
    /// the CONNACK the engine accepted (state became Connected)
    pub connack: Option<rf::Connack>,
    pub connack_step: Option<usize>,
    pub connack_time: Option<u64>,
    /// first entry point error on this connection (step, kind, text)
    pub first_error: Option<(usize, String, String)>,
    pub disconnect_emitted_at: Option<usize>,
    /// (end offset in emitted stream, step, time) per service call that produced output
    pub emit_log: Vec<(usize, usize, u64)>,
}

pub struct World {
    pub spec: EngineSpec,
    pub ops: Vec<OpInfo>,
    pub by_tag: HashMap<u64, usize>,
    pub conns: Vec<ConnInfo>,
    pub current: Option<usize>,
    pub steps: usize,
    pub successful_connections: usize,
    pub assigned_client_id: Option<String>,
    pub resets: usize,
    /// anomalies in the harness' own bookkeeping (must stay empty)
    pub harness_errors: Vec<String>,
    /// latest QoS2 operation (tag) that emitted a PUBLISH with this id
    pub pub2_ids: HashMap<u16, u64>,
    /// latest operation (index) with a non-PUBREL appearance on (connection, id)
    pub conn_ids: HashMap<(usize, u16), usize>,
}

/// What changed in a step (handed to the monitors together with the step record)
#[derive(Default, Debug)]
pub struct Delta {
    /// (conn, index into conn.emitted) of packets completed in the emitted stream this step
    pub new_emitted: Vec<(usize, usize)>,
    /// packets whose last byte was written this step
    pub new_written: Vec<(usize, usize)>,
    /// (conn, index into conn.inbound)
    pub new_inbound: Vec<(usize, usize)>,
    pub connack_accepted: bool,
    /// the accepted CONNACK could not be decoded by the reference decoder
    pub connack_opaque: bool,
    pub emitted_decode_error: Option<String>,
}

impl World {
    pub fn new(spec: EngineSpec) -> World {
        World { spec, ops: Vec::new(), by_tag: HashMap::new(), conns: Vec::new(), current: None, steps: 0, successful_connections: 0, assigned_client_id: None, resets: 0, harness_errors: Vec::new(), pub2_ids: HashMap::new(), conn_ids: HashMap::new() }
    }

    pub fn op(&self, tag: u64) -> Option<&OpInfo> { self.by_tag.get(&tag).map(|i| &self.ops[*i]) }
    pub fn conn(&self) -> Option<&ConnInfo> { self.current.map(|c| &self.conns[c]) }

    fn wire_tag(&self, conn: usize, p: &rf::Packet) -> Option<u64> {
        match p {
            rf::Packet::Publish(p) => payload_tag(&p.payload).or_else(|| if p.payload.is_empty() { filter_tag(&p.topic) } else { None }),
            rf::Packet::Subscribe(s) => s.subscriptions.first().and_then(|x| filter_tag(&x.filter)),
            rf::Packet::Unsubscribe(u) => u.filters.first().and_then(|x| filter_tag(x)),
            rf::Packet::Pubrel(a) => {
                let _ = conn;
                self.pub2_ids.get(&a.packet_id).copied()
            }
            _ => None,
        }
    }

    /// Applies a step; returns what changed.
    pub fn apply(&mut self, step: &StepRecord) -> Delta {
        let mut delta = Delta::default();
        self.steps = step.index + 1;
        let v5 = self.spec.v5;
        match &step.event {
            Event::Submit(op) => {
                let index = self.ops.len();
                let entries = match &op.body { OpBody::Subscribe(s) => s.subs.len(), OpBody::Unsubscribe(u) => u.filters.len(), _ => 0 };
                let rejected = if let CallResult::Rejected(k, t) = &step.result { Some((k.clone(), t.clone())) } else { None };
                if self.by_tag.contains_key(&op.tag) {
                    self.harness_errors.push(format!("duplicate tag {}", op.tag));
                }
                self.by_tag.insert(op.tag, index);
                self.ops.push(OpInfo {
                    tag: op.tag, kind: op_kind(op), index, spec: op.clone(), submit_step: step.index, submit_time: step.time_ms,
                    submit_state: step.state_before, rejected_at_submit: rejected, entries, completions: Vec::new(), appearances: Vec::new(),
                    acks: Vec::new(), interruptions: 0, pubrec_received: false, pubrec_uncertain: false, restart_conn: None,
                });
            }
            Event::Open { deadline_ms } => {
                let index = self.conns.len();
                self.conns.push(ConnInfo {
                    index, open_step: step.index, open_time: step.time_ms, deadline_ms: *deadline_ms, close_step: None, close_time: None,
                    emitted_decoder: { let mut d = rf::StreamDecoder::new(v5); d.compat = true; d }, emitted_bytes: 0, written_bytes: 0, emitted: Vec::new(), written_count: 0,
                    inbound_decoder: { let mut d = rf::StreamDecoder::new(v5); d.lenient = true; d }, inbound: Vec::new(), inbound_bytes: 0, connack: None, connack_step: None, connack_time: None,
                    first_error: None, disconnect_emitted_at: None, emit_log: Vec::new(),
                });
                self.current = Some(index);
            }
            Event::Close => {
                if let Some(c) = self.current {
                    self.conns[c].close_step = Some(step.index);
                    self.conns[c].close_time = Some(step.time_ms);
                    // interruption counting: fully emitted, ackable, unresolved before this step
                    for op in self.ops.iter_mut() {
                        if !op.kind.needs_ack() || op.resolved_before(step.index) { continue; }
                        if op.appearances.iter().any(|a| a.conn == c) {
                            op.interruptions += 1;
                        }
                    }
                }
                self.current = None;
            }
            Event::Reset => {
                self.resets += 1;
                if let Some(c) = self.current {
                    // reset does not close the transport by itself; the harness always closes first
                    let _ = c;
                }
            }
            Event::Service => {
                if let Some(c) = self.current {
                    if !step.emitted.is_empty() {
                        let conn = &mut self.conns[c];
                        conn.emitted_bytes += step.emitted.len();
                        conn.emit_log.push((conn.emitted_bytes, step.index, step.time_ms));
                        let framed = conn.emitted_decoder.feed(&step.emitted);
                        if let Some(e) = &conn.emitted_decoder.error {
                            if delta.emitted_decode_error.is_none() { delta.emitted_decode_error = Some(e.clone()); }
                        }
                        if let Some(e) = conn.emitted_decoder.soft_errors.pop() {
                            conn.emitted_decoder.soft_errors.clear();
                            let cause = if e.contains("password-without-username") { "CONNECT:password-without-username-311".to_string() } else { "subscription-identifier-encoded-as-u32".to_string() };
                            if delta.emitted_decode_error.is_none() { delta.emitted_decode_error = Some(cause); }
                        }
                        let mut new_packets = Vec::new();
                        for f in framed {
                            new_packets.push(WirePacket { packet: f.packet, start: f.start, end: f.end, emitted_step: step.index, emitted_time: step.time_ms, written_step: None, written_time: None, tag: None });
                        }
                        for mut wp in new_packets {
                            let tag = self.wire_tag(c, &wp.packet);
                            wp.tag = tag;
                            let conn = &mut self.conns[c];
                            let pi = conn.emitted.len();
                            if let rf::Packet::Disconnect(_) = &wp.packet { conn.disconnect_emitted_at = Some(step.index); }
                            let (kind, pid, dup) = match &wp.packet {
                                rf::Packet::Publish(p) => (Some(WireKind::Publish), p.packet_id.unwrap_or(0), p.dup),
                                rf::Packet::Pubrel(a) => (Some(WireKind::Pubrel), a.packet_id, false),
                                rf::Packet::Subscribe(s) => (Some(WireKind::Subscribe), s.packet_id, false),
                                rf::Packet::Unsubscribe(u) => (Some(WireKind::Unsubscribe), u.packet_id, false),
                                _ => (None, 0, false),
                            };
                            conn.emitted.push(wp);
                            if let (Some(kind), Some(tag)) = (kind, tag) {
                                if let Some(oi) = self.by_tag.get(&tag).copied() {
                                    if kind == WireKind::Publish && self.ops[oi].kind == OpKind::Pub2 { self.pub2_ids.insert(pid, tag); }
                                    self.conn_ids.insert((c, pid), oi);
                                    self.ops[oi].appearances.push(Appearance { conn: c, kind, packet_id: pid, dup, emitted_step: step.index, emitted_time: step.time_ms, written_step: None, seq: pi, packet_index: pi });
                                }
                            }
                            delta.new_emitted.push((c, pi));
                        }
                    }
                }
            }
            Event::Write(_) => {
                if let Some(c) = self.current {
                    let conn = &mut self.conns[c];
                    conn.written_bytes += step.written.len();
                    while conn.written_count < conn.emitted.len() && conn.emitted[conn.written_count].end <= conn.written_bytes {
                        let pi = conn.written_count;
                        conn.emitted[pi].written_step = Some(step.index);
                        conn.emitted[pi].written_time = Some(step.time_ms);
                        conn.written_count += 1;
                        delta.new_written.push((c, pi));
                    }
                    for (_, pi) in &delta.new_written {
                        if let Some(tag) = self.conns[c].emitted[*pi].tag {
                            if let Some(oi) = self.by_tag.get(&tag).copied() {
                                for a in self.ops[oi].appearances.iter_mut() {
                                    if a.conn == c && a.packet_index == *pi { a.written_step = Some(step.index); }
                                }
                            }
                        }
                    }
                }
            }
            Event::Deliver(bytes) => {
                if let Some(c) = self.current {
                    let conn = &mut self.conns[c];
                    conn.inbound_bytes += bytes.len();
                    let framed = conn.inbound_decoder.feed(bytes);
                    for f in framed {
                        let ii = conn.inbound.len();
                        conn.inbound.push(InboundPacket { packet: f.packet, step: step.index, time: step.time_ms });
                        delta.new_inbound.push((c, ii));
                    }
                    // CONNACK acceptance
                    if step.state_before == EngineState::PendingConnack && step.inbound.iter().any(|e| matches!(e, InboundView::Connack { reason: 0, .. })) {
                        let found = delta.new_inbound.iter().find_map(|(_, ii)| if let rf::Packet::Connack(k) = &self.conns[c].inbound[*ii].packet { Some(k.clone()) } else { None });
                        if let Some(k) = found {
                            if let Some(id) = &k.assigned_client_id { self.assigned_client_id = Some(id.clone()); }
                            let sp = k.session_present;
                            let conn = &mut self.conns[c];
                            conn.connack = Some(k);
                            conn.connack_step = Some(step.index);
                            conn.connack_time = Some(step.time_ms);
                            self.successful_connections += 1;
                            delta.connack_accepted = true;
                            if !sp {
                                // completions of this step are recorded below, so resolved() here means
                                // "resolved before the CONNACK was processed"
                                for op in self.ops.iter_mut() {
                                    if !op.resolved() {
                                        op.restart_conn = Some(c);
                                        op.pubrec_received = false;
                                        op.pubrec_uncertain = false;
                                    }
                                }
                            }
                        } else {
                            // the engine accepted a CONNACK the strict reference decoder could not frame
                            // (only possible with a hostile / mutated stream): the connection is known
                            // to be established but its announced capabilities are not
                            let conn = &mut self.conns[c];
                            conn.connack_step = Some(step.index);
                            conn.connack_time = Some(step.time_ms);
                            self.successful_connections += 1;
                            delta.connack_accepted = true;
                            delta.connack_opaque = true;
                            for op in self.ops.iter_mut() { if !op.resolved() { op.restart_conn = Some(c); op.pubrec_received = false; } }
                        }
                    }
                    // ack deliveries
                    for (_, ii) in &delta.new_inbound {
                        let ip = &self.conns[c].inbound[*ii];
                        let (kind, pid, reason): (&'static str, u16, u8) = match &ip.packet {
                            rf::Packet::Puback(a) => ("PUBACK", a.packet_id, a.reason),
                            rf::Packet::Pubrec(a) => ("PUBREC", a.packet_id, a.reason),
                            rf::Packet::Pubcomp(a) => ("PUBCOMP", a.packet_id, a.reason),
                            rf::Packet::Suback(a) => ("SUBACK", a.packet_id, 0),
                            rf::Packet::Unsuback(a) => ("UNSUBACK", a.packet_id, 0),
                            _ => continue,
                        };
                        // which operation holds this id on this connection?
                        let target: Option<usize> = self.conn_ids.get(&(c, pid)).copied().filter(|oi| !self.ops[*oi].resolved_before(step.index));
                        if let Some(oi) = target {
                            self.ops[oi].acks.push(AckDelivery { conn: c, step: step.index, time: step.time_ms, kind, packet_id: pid, reason });
                            if kind == "PUBREC" && reason < 0x80 && self.ops[oi].kind == OpKind::Pub2 {
                                if step.result.is_err() || step.result.is_panic() { self.ops[oi].pubrec_uncertain = true; } else { self.ops[oi].pubrec_received = true; self.ops[oi].pubrec_uncertain = false; }
                            }
                        }
                    }
                }
            }
            _ => {}
        }

        if let CallResult::Err(k, t) = &step.result {
            if let Some(c) = self.current {
                if self.conns[c].first_error.is_none() {
                    self.conns[c].first_error = Some((step.index, k.clone(), t.clone()));
                }
            }
        }

        for (tag, outcome) in &step.completions {
            if let Some(oi) = self.by_tag.get(tag).copied() {
                self.ops[oi].completions.push((step.index, step.time_ms, outcome.clone()));
            } else {
                self.harness_errors.push(format!("completion for unknown tag {}", tag));
            }
        }

        delta
    }

    pub fn unresolved(&self) -> Vec<&OpInfo> {
        self.ops.iter().filter(|o| !o.resolved()).collect()
    }
}
