//! Runner: executes driver-level events against the real protocol engine (through the verif
//! facade), with every entry point wrapped in catch_unwind, and records what happened.

use crate::refmqtt as rf;
use gneiss_mqtt::alias::OutboundAliasResolverFactory;
use gneiss_mqtt::client::config::*;
use gneiss_mqtt::client::*;
use gneiss_mqtt::error::GneissError;
use gneiss_mqtt::mqtt::*;
use gneiss_mqtt::verif as gv;
use serde_json::{json, Value};
use std::cell::RefCell;
use std::panic::{catch_unwind, AssertUnwindSafe};
use std::time::Duration;

/* ---------------------------------------------------------------------------------------- */
/* panic capture                                                                              */
/* ---------------------------------------------------------------------------------------- */

thread_local! {
    static LAST_PANIC: RefCell<Option<(String, String)>> = RefCell::new(None);
}

pub fn install_panic_hook() {
    std::panic::set_hook(Box::new(|info| {
        let msg = if let Some(s) = info.payload().downcast_ref::<&str>() {
            s.to_string()
        } else if let Some(s) = info.payload().downcast_ref::<String>() {
            s.clone()
        } else {
            "<non-string panic>".to_string()
        };
        let loc = info.location().map(|l| format!("{}:{}", l.file(), l.line())).unwrap_or_default();
        LAST_PANIC.with(|p| *p.borrow_mut() = Some((msg, loc)));
    }));
}

pub fn take_panic() -> (String, String) {
    LAST_PANIC.with(|p| p.borrow_mut().take()).unwrap_or(("<unknown>".to_string(), String::new()))
}

/// Strip the line number so that signatures survive unrelated edits: keep file only, and
/// normalise the message (numbers replaced).
pub fn panic_signature(msg: &str, loc: &str) -> (String, String) {
    let file = loc.rsplit_once(':').map(|(f, _)| f).unwrap_or(loc);
    let file = file.rsplit_once("/src/").map(|(_, f)| f).unwrap_or(file);
    let mut m = String::new();
    let mut last_digit = false;
    for ch in msg.chars() {
        if ch.is_ascii_digit() {
            if !last_digit { m.push('#'); }
            last_digit = true;
        } else {
            m.push(ch);
            last_digit = false;
        }
    }
    if m.len() > 160 { m.truncate(160); }
    (m, file.to_string())
}

/* ---------------------------------------------------------------------------------------- */
/* configuration                                                                              */
/* ---------------------------------------------------------------------------------------- */

#[derive(Clone, Debug, PartialEq, Eq)]
pub enum Resolver {
    Null,
    Manual,
    Lru(u16),
}

#[derive(Clone, Debug)]
pub struct ConnectSpec {
    pub keep_alive: Option<u16>,
    pub rejoin: u8, // 0 PostSuccess, 1 Always, 2 Never
    pub client_id: Option<String>,
    pub username: Option<String>,
    pub password: Option<Vec<u8>>,
    pub session_expiry: Option<u32>,
    pub request_response_information: Option<bool>,
    pub request_problem_information: Option<bool>,
    pub receive_maximum: Option<u16>,
    pub topic_alias_maximum: Option<u16>,
    pub maximum_packet_size: Option<u32>,
    pub will_delay: Option<u32>,
    pub will: Option<PublishSpec>,
    pub user_props: Vec<(String, String)>,
}

impl Default for ConnectSpec {
    fn default() -> Self {
        ConnectSpec {
            keep_alive: Some(1200), rejoin: 0, client_id: None, username: None, password: None, session_expiry: None,
            request_response_information: None, request_problem_information: None, receive_maximum: None,
            topic_alias_maximum: None, maximum_packet_size: None, will_delay: None, will: None, user_props: vec![],
        }
    }
}

#[derive(Clone, Debug)]
pub struct EngineSpec {
    pub connect: ConnectSpec,
    pub policy: u8, // 0 PreserveAll 1 PreserveAcknowledged 2 PreserveQos1PlusPublishes 3 PreserveNothing
    pub ping_timeout_ms: u64,
    pub ping_timeout_max: bool,
    pub v5: bool,
    pub one_at_a_time: bool,
    pub max_retries: Option<u32>,
    pub resolver: Resolver,
}

impl Default for EngineSpec {
    fn default() -> Self {
        EngineSpec { connect: ConnectSpec::default(), policy: 0, ping_timeout_ms: 10_000, ping_timeout_max: false, v5: true, one_at_a_time: false, max_retries: None, resolver: Resolver::Null }
    }
}

pub fn policy_name(p: u8) -> &'static str {
    match p { 0 => "PreserveAll", 1 => "PreserveAcknowledged", 2 => "PreserveQos1PlusPublishes", _ => "PreserveNothing" }
}

#[derive(Clone, Debug, Default, PartialEq, Eq)]
pub struct PublishSpec {
    pub topic: String,
    pub qos: u8,
    pub retain: bool,
    pub payload: Option<Vec<u8>>,
    pub payload_format: Option<u8>,
    pub message_expiry: Option<u32>,
    pub response_topic: Option<String>,
    pub correlation_data: Option<Vec<u8>>,
    pub content_type: Option<String>,
    pub user_props: Vec<(String, String)>,
    /// crate-private field, settable only through the facade (manual alias resolver)
    pub topic_alias: Option<u16>,
}

#[derive(Clone, Debug, Default, PartialEq, Eq)]
pub struct SubscribeSpec {
    pub subs: Vec<rf::Subscription>,
    pub subscription_id: Option<u32>,
    pub user_props: Vec<(String, String)>,
}

#[derive(Clone, Debug, Default, PartialEq, Eq)]
pub struct UnsubscribeSpec {
    pub filters: Vec<String>,
    pub user_props: Vec<(String, String)>,
}

#[derive(Clone, Debug, Default, PartialEq, Eq)]
pub struct DisconnectSpec {
    pub reason: u8,
    pub session_expiry: Option<u32>,
    pub reason_string: Option<String>,
    pub user_props: Vec<(String, String)>,
}

#[derive(Clone, Debug, PartialEq, Eq)]
pub enum OpBody {
    Publish(PublishSpec),
    Subscribe(SubscribeSpec),
    Unsubscribe(UnsubscribeSpec),
}

#[derive(Clone, Debug, PartialEq, Eq)]
pub struct OpSpec {
    pub tag: u64,
    pub body: OpBody,
    pub ack_timeout_ms: Option<u64>,
    pub ack_timeout_max: bool,
}

pub fn qos_of(q: u8) -> QualityOfService {
    match q { 0 => QualityOfService::AtMostOnce, 1 => QualityOfService::AtLeastOnce, _ => QualityOfService::ExactlyOnce }
}

pub fn build_publish(spec: &PublishSpec) -> PublishPacket {
    let mut b = PublishPacket::builder(spec.topic.clone(), qos_of(spec.qos));
    if spec.retain { b = b.with_retain(true); }
    if let Some(p) = &spec.payload { b = b.with_payload(p.clone()); }
    if let Some(f) = spec.payload_format { b = b.with_payload_format(if f == 0 { PayloadFormatIndicator::Bytes } else { PayloadFormatIndicator::Utf8 }); }
    if let Some(e) = spec.message_expiry { b = b.with_message_expiry_interval_seconds(e); }
    if let Some(r) = &spec.response_topic { b = b.with_response_topic(r.clone()); }
    if let Some(c) = &spec.correlation_data { b = b.with_correlation_data(c.clone()); }
    if let Some(c) = &spec.content_type { b = b.with_content_type(c.clone()); }
    for (k, v) in &spec.user_props { b = b.with_user_property(UserProperty::new(k.clone(), v.clone())); }
    b.build()
}

pub fn build_subscribe(spec: &SubscribeSpec) -> SubscribePacket {
    let mut b = SubscribePacket::builder();
    for s in &spec.subs {
        let rh = match s.retain_handling { 0 => RetainHandlingType::SendOnSubscribe, 1 => RetainHandlingType::SendOnSubscribeIfNew, _ => RetainHandlingType::DontSend };
        let sub = Subscription::builder(s.filter.clone(), qos_of(s.qos)).with_no_local(s.no_local).with_retain_as_published(s.retain_as_published).retain_handling_type(rh).build();
        b = b.with_subscription(sub);
    }
    if let Some(id) = spec.subscription_id { b = b.with_subscription_identifier(id); }
    for (k, v) in &spec.user_props { b = b.with_user_property(UserProperty::new(k.clone(), v.clone())); }
    b.build()
}

pub fn build_unsubscribe(spec: &UnsubscribeSpec) -> UnsubscribePacket {
    let mut b = UnsubscribePacket::builder();
    for f in &spec.filters { b = b.with_topic_filter(f.clone()); }
    for (k, v) in &spec.user_props { b = b.with_user_property(UserProperty::new(k.clone(), v.clone())); }
    b.build()
}

pub fn disconnect_reason_of(code: u8) -> DisconnectReasonCode {
    DisconnectReasonCode::try_from(code).unwrap_or(DisconnectReasonCode::NormalDisconnection)
}

pub fn build_disconnect(spec: &DisconnectSpec) -> DisconnectPacket {
    let mut b = DisconnectPacket::builder().with_reason_code(disconnect_reason_of(spec.reason));
    if let Some(e) = spec.session_expiry { b = b.with_session_expiry_interval_seconds(e); }
    if let Some(r) = &spec.reason_string { b = b.with_reason_string(r.clone()); }
    for (k, v) in &spec.user_props { b = b.with_user_property(UserProperty::new(k.clone(), v.clone())); }
    b.build()
}

pub fn build_connect_options(spec: &ConnectSpec) -> ConnectOptions {
    let mut b = ConnectOptions::builder();
    b.with_keep_alive_interval_seconds(spec.keep_alive);
    b.with_rejoin_session_policy(match spec.rejoin { 0 => RejoinSessionPolicy::PostSuccess, 1 => RejoinSessionPolicy::Always, _ => RejoinSessionPolicy::Never });
    if let Some(c) = &spec.client_id { b.with_client_id(c); }
    if let Some(u) = &spec.username { b.with_username(u); }
    if let Some(p) = &spec.password { b.with_password(p); }
    if let Some(v) = spec.session_expiry { b.with_session_expiry_interval_seconds(v); }
    if let Some(v) = spec.request_response_information { b.with_request_response_information(v); }
    if let Some(v) = spec.request_problem_information { b.with_request_problem_information(v); }
    if let Some(v) = spec.receive_maximum { b.with_receive_maximum(v); }
    if let Some(v) = spec.topic_alias_maximum { b.with_topic_alias_maximum(v); }
    if let Some(v) = spec.maximum_packet_size { b.with_maximum_packet_size_bytes(v); }
    if let Some(v) = spec.will_delay { b.with_will_delay_interval_seconds(v); }
    if let Some(w) = &spec.will { b.with_will(build_publish(w)); }
    if !spec.user_props.is_empty() {
        b.with_user_properties(spec.user_props.iter().map(|(k, v)| UserProperty::new(k.clone(), v.clone())).collect());
    }
    b.build()
}

pub fn policy_of(p: u8) -> OfflineQueuePolicy {
    match p { 0 => OfflineQueuePolicy::PreserveAll, 1 => OfflineQueuePolicy::PreserveAcknowledged, 2 => OfflineQueuePolicy::PreserveQos1PlusPublishes, _ => OfflineQueuePolicy::PreserveNothing }
}

pub fn build_engine(spec: &EngineSpec) -> gv::Engine {
    let factory = match &spec.resolver {
        Resolver::Null => None,
        Resolver::Manual => Some(OutboundAliasResolverFactory::new_manual_factory()),
        Resolver::Lru(n) => Some(OutboundAliasResolverFactory::new_lru_factory(*n)),
    };
    gv::Engine::new(gv::EngineConfig {
        connect_options: build_connect_options(&spec.connect),
        offline_queue_policy: policy_of(spec.policy),
        ping_timeout: if spec.ping_timeout_max { Duration::MAX } else { Duration::from_millis(spec.ping_timeout_ms) },
        protocol_mode: if spec.v5 { ProtocolMode::Mqtt5 } else { ProtocolMode::Mqtt311 },
        post_reconnect_queue_drain_policy: if spec.one_at_a_time { PostReconnectQueueDrainPolicy::OneAtATime } else { PostReconnectQueueDrainPolicy::None },
        max_interrupted_retries: spec.max_retries,
        outbound_alias_resolver_factory: factory,
    })
}

/* ---------------------------------------------------------------------------------------- */
/* events and step records                                                                    */
/* ---------------------------------------------------------------------------------------- */

#[derive(Clone, Debug)]
pub enum Event {
    Submit(OpSpec),
    SubmitDisconnect(DisconnectSpec),
    Open { deadline_ms: u64 },
    Close,
    Deliver(Vec<u8>),
    /// the transport accepts k of the unwritten bytes of the driver buffer
    Write(usize),
    WriteComplete,
    Service,
    Advance(u64),
    Reset,
}

impl Event {
    pub fn kind(&self) -> &'static str {
        match self {
            Event::Submit(_) => "submit",
            Event::SubmitDisconnect(_) => "submit-disconnect",
            Event::Open { .. } => "open",
            Event::Close => "close",
            Event::Deliver(_) => "deliver",
            Event::Write(_) => "write",
            Event::WriteComplete => "write-complete",
            Event::Service => "service",
            Event::Advance(_) => "advance",
            Event::Reset => "reset",
        }
    }
    pub fn kind_code(&self) -> u8 {
        match self {
            Event::Submit(_) => 1,
            Event::SubmitDisconnect(_) => 2,
            Event::Open { .. } => 3,
            Event::Close => 4,
            Event::Deliver(_) => 5,
            Event::Write(_) => 6,
            Event::WriteComplete => 7,
            Event::Service => 8,
            Event::Advance(_) => 9,
            Event::Reset => 10,
        }
    }
}

#[derive(Clone, Debug, PartialEq, Eq)]
pub enum CallResult {
    Ok,
    /// the entry point returned Err(kind, text)
    Err(String, String),
    /// the entry point panicked (message, location)
    Panic(String, String),
    /// the event does not call into the engine (Write, Advance) or the call returns nothing
    None,
    /// submission rejected by the static validation the public clients apply before submitting
    Rejected(String, String),
}

impl CallResult {
    pub fn is_err(&self) -> bool { matches!(self, CallResult::Err(_, _)) }
    pub fn is_panic(&self) -> bool { matches!(self, CallResult::Panic(_, _)) }
}

#[derive(Clone, Debug, PartialEq, Eq)]
pub struct AckView {
    pub packet_id: u16,
    pub reason: u8,
    pub token: Option<String>,
}

#[derive(Clone, Debug, PartialEq, Eq)]
pub enum OutcomeView {
    Qos0,
    Puback(AckView),
    Pubrec(AckView),
    Pubcomp(AckView),
    Suback { packet_id: u16, codes: Vec<u8>, token: Option<String> },
    Unsuback { packet_id: u16, codes: Vec<u8>, token: Option<String> },
    Err(String, String),
    Dropped,
}

impl OutcomeView {
    pub fn err_kind(&self) -> Option<&str> {
        if let OutcomeView::Err(k, _) = self { Some(k.as_str()) } else { None }
    }
    pub fn short(&self) -> String {
        match self {
            OutcomeView::Qos0 => "Qos0".into(),
            OutcomeView::Puback(a) => format!("Puback(id={},rc={:#x})", a.packet_id, a.reason),
            OutcomeView::Pubrec(a) => format!("Pubrec(id={},rc={:#x})", a.packet_id, a.reason),
            OutcomeView::Pubcomp(a) => format!("Pubcomp(id={},rc={:#x})", a.packet_id, a.reason),
            OutcomeView::Suback { packet_id, codes, .. } => format!("Suback(id={},n={})", packet_id, codes.len()),
            OutcomeView::Unsuback { packet_id, codes, .. } => format!("Unsuback(id={},n={})", packet_id, codes.len()),
            OutcomeView::Err(k, _) => format!("Err({})", k),
            OutcomeView::Dropped => "DroppedUncalled".into(),
        }
    }
}

#[derive(Clone, Debug)]
pub struct InboundPublishView {
    pub topic: String,
    pub qos: u8,
    pub dup: bool,
    pub retain: bool,
    pub payload: Vec<u8>,
    pub packet_id: u16,
    pub topic_alias: Option<u16>,
}

#[derive(Clone, Debug)]
pub enum InboundView {
    Connack { reason: u8, session_present: bool },
    Publish(InboundPublishView),
    Disconnect { reason: u8 },
}

#[derive(Clone, Debug)]
pub struct StepRecord {
    pub index: usize,
    pub time_ms: u64,
    pub event: Event,
    pub result: CallResult,
    /// bytes appended to the driver buffer by this step (Service only)
    pub emitted: Vec<u8>,
    /// bytes that reached the transport in this step (Write only)
    pub written: Vec<u8>,
    pub completions: Vec<(u64, OutcomeView)>,
    pub inbound: Vec<InboundView>,
    pub state_before: gv::EngineState,
    pub state_after: gv::EngineState,
    /// reported next service time (ms since base) queried right after the step, None = never
    pub next_service_ms: Option<u64>,
    pub next_service_panic: Option<(String, String)>,
    /// an operation was dequeued for encoding but not fully encoded when the step began
    pub current_op_before: bool,
}

pub fn error_kind(e: &GneissError) -> String {
    let s = format!("{:?}", e);
    s.split(|c| c == '(' || c == ' ' || c == '{').next().unwrap_or("?").to_string()
}

fn error_view(e: &GneissError) -> (String, String) {
    (error_kind(e), format!("{}", e))
}

fn ack_view_from<T>(packet_id: u16, reason: u8, reason_string: Option<&str>, _p: &T) -> AckView {
    AckView { packet_id, reason, token: reason_string.map(|s| s.to_string()) }
}

fn map_outcome(o: gv::Outcome) -> OutcomeView {
    match o {
        gv::Outcome::Publish(Ok(PublishResponse::Qos0)) => OutcomeView::Qos0,
        gv::Outcome::Publish(Ok(PublishResponse::Qos1(p))) => OutcomeView::Puback(ack_view_from(gv::puback_packet_id(&p), p.reason_code() as u8, p.reason_string(), &p)),
        gv::Outcome::Publish(Ok(PublishResponse::Qos2(Qos2Response::Pubrec(p)))) => OutcomeView::Pubrec(ack_view_from(gv::pubrec_packet_id(&p), p.reason_code() as u8, p.reason_string(), &p)),
        gv::Outcome::Publish(Ok(PublishResponse::Qos2(Qos2Response::Pubcomp(p)))) => OutcomeView::Pubcomp(ack_view_from(gv::pubcomp_packet_id(&p), p.reason_code() as u8, p.reason_string(), &p)),
        gv::Outcome::Publish(Err(e)) => { let (k, t) = error_view(&e); OutcomeView::Err(k, t) }
        gv::Outcome::Subscribe(Ok(s)) => OutcomeView::Suback { packet_id: gv::suback_packet_id(&s), codes: s.reason_codes().iter().map(|c| *c as u8).collect(), token: s.reason_string().map(|x| x.to_string()) },
        gv::Outcome::Subscribe(Err(e)) => { let (k, t) = error_view(&e); OutcomeView::Err(k, t) }
        gv::Outcome::Unsubscribe(Ok(s)) => OutcomeView::Unsuback { packet_id: gv::unsuback_packet_id(&s), codes: s.reason_codes().iter().map(|c| *c as u8).collect(), token: s.reason_string().map(|x| x.to_string()) },
        gv::Outcome::Unsubscribe(Err(e)) => { let (k, t) = error_view(&e); OutcomeView::Err(k, t) }
        gv::Outcome::DroppedUncalled => OutcomeView::Dropped,
    }
}

fn map_inbound(e: gv::InboundEvent) -> InboundView {
    match e {
        gv::InboundEvent::Connack(c) => InboundView::Connack { reason: c.reason_code() as u8, session_present: c.session_present() },
        gv::InboundEvent::Publish { packet, packet_id, topic_alias } => InboundView::Publish(InboundPublishView {
            topic: packet.topic().to_string(),
            qos: packet.qos() as u8,
            dup: packet.duplicate(),
            retain: packet.retain(),
            payload: packet.payload().map(|p| p.to_vec()).unwrap_or_default(),
            packet_id,
            topic_alias,
        }),
        gv::InboundEvent::Disconnect(d) => InboundView::Disconnect { reason: d.reason_code() as u8 },
    }
}

/* ---------------------------------------------------------------------------------------- */
/* runner                                                                                     */
/* ---------------------------------------------------------------------------------------- */

pub struct Runner {
    pub spec: EngineSpec,
    pub engine: gv::Engine,
    pub now_ms: u64,
    /// the driver's output buffer for the current connection (None when no connection)
    pub out_buf: Option<Vec<u8>>,
    pub out_written: usize,
    pub buf_capacity: usize,
    pub steps: usize,
    pub poisoned: bool,
}

fn call<T>(f: impl FnOnce() -> T) -> Result<T, (String, String)> {
    match catch_unwind(AssertUnwindSafe(f)) {
        Ok(v) => Ok(v),
        Err(_) => Err(take_panic()),
    }
}

impl Runner {
    pub fn new(spec: EngineSpec, buf_capacity: usize) -> Runner {
        let engine = build_engine(&spec);
        Runner { spec, engine, now_ms: 0, out_buf: None, out_written: 0, buf_capacity: usize::max(4, buf_capacity), steps: 0, poisoned: false }
    }

    pub fn now(&self) -> Duration { Duration::from_millis(self.now_ms) }

    pub fn unwritten(&self) -> usize {
        self.out_buf.as_ref().map(|b| b.len() - self.out_written).unwrap_or(0)
    }

    pub fn state(&self) -> gv::EngineState { self.engine.state() }

    fn res(r: Result<Result<(), GneissError>, (String, String)>) -> CallResult {
        match r {
            Ok(Ok(())) => CallResult::Ok,
            Ok(Err(e)) => { let (k, t) = error_view(&e); CallResult::Err(k, t) }
            Err((m, l)) => CallResult::Panic(m, l),
        }
    }

    /// Executes one event.  Illegal driver actions (write without data, service without a
    /// buffer) are the caller's responsibility; they are executed as no-ops with result None.
    pub fn apply(&mut self, event: Event) -> StepRecord {
        let state_before = self.engine.state();
        let current_op_before = self.engine.has_current_operation();
        let mut emitted = Vec::new();
        let mut written = Vec::new();
        let mut inbound = Vec::new();
        let now = self.now();
        let result = match &event {
            Event::Submit(op) => {
                let opts_timeout = if op.ack_timeout_max { Some(Duration::MAX) } else { op.ack_timeout_ms.map(Duration::from_millis) };
                match &op.body {
                    OpBody::Publish(p) => {
                        let packet = build_publish(p);
                        let pre = call(|| gv::validate_outbound(&gv::OutboundPacket::Publish { packet: packet.clone(), packet_id: 0, duplicate: false, topic_alias: p.topic_alias }));
                        match pre {
                            Err((m, l)) => CallResult::Panic(m, l),
                            Ok(Err(e)) => { let (k, t) = error_view(&e); CallResult::Rejected(k, t) }
                            Ok(Ok(())) => {
                                let mut b = PublishOptions::builder();
                                if let Some(t) = opts_timeout { b = b.with_ack_timeout(t); }
                                let options = b.build();
                                let engine = &mut self.engine;
                                let tag = op.tag;
                                let alias = p.topic_alias;
                                match call(move || engine.submit_publish(now, packet, options, tag, alias)) {
                                    Ok(()) => CallResult::None,
                                    Err((m, l)) => CallResult::Panic(m, l),
                                }
                            }
                        }
                    }
                    OpBody::Subscribe(s) => {
                        let packet = build_subscribe(s);
                        let pre = call(|| gv::validate_outbound(&gv::OutboundPacket::Subscribe { packet: packet.clone(), packet_id: 0 }));
                        match pre {
                            Err((m, l)) => CallResult::Panic(m, l),
                            Ok(Err(e)) => { let (k, t) = error_view(&e); CallResult::Rejected(k, t) }
                            Ok(Ok(())) => {
                                let mut b = SubscribeOptions::builder();
                                if let Some(t) = opts_timeout { b = b.with_ack_timeout(t); }
                                let options = b.build();
                                let engine = &mut self.engine;
                                let tag = op.tag;
                                match call(move || engine.submit_subscribe(now, packet, options, tag)) {
                                    Ok(()) => CallResult::None,
                                    Err((m, l)) => CallResult::Panic(m, l),
                                }
                            }
                        }
                    }
                    OpBody::Unsubscribe(u) => {
                        let packet = build_unsubscribe(u);
                        let pre = call(|| gv::validate_outbound(&gv::OutboundPacket::Unsubscribe { packet: packet.clone(), packet_id: 0 }));
                        match pre {
                            Err((m, l)) => CallResult::Panic(m, l),
                            Ok(Err(e)) => { let (k, t) = error_view(&e); CallResult::Rejected(k, t) }
                            Ok(Ok(())) => {
                                let mut b = UnsubscribeOptions::builder();
                                if let Some(t) = opts_timeout { b = b.with_ack_timeout(t); }
                                let options = b.build();
                                let engine = &mut self.engine;
                                let tag = op.tag;
                                match call(move || engine.submit_unsubscribe(now, packet, options, tag)) {
                                    Ok(()) => CallResult::None,
                                    Err((m, l)) => CallResult::Panic(m, l),
                                }
                            }
                        }
                    }
                }
            }
            Event::SubmitDisconnect(d) => {
                let packet = build_disconnect(d);
                let pre = call(|| gv::validate_outbound(&gv::OutboundPacket::Disconnect(packet.clone())));
                match pre {
                    Err((m, l)) => CallResult::Panic(m, l),
                    Ok(Err(e)) => { let (k, t) = error_view(&e); CallResult::Rejected(k, t) }
                    Ok(Ok(())) => {
                        let engine = &mut self.engine;
                        match call(move || engine.submit_disconnect(now, packet)) {
                            Ok(()) => CallResult::None,
                            Err((m, l)) => CallResult::Panic(m, l),
                        }
                    }
                }
            }
            Event::Open { deadline_ms } => {
                self.out_buf = Some(Vec::with_capacity(self.buf_capacity));
                self.out_written = 0;
                let engine = &mut self.engine;
                let deadline = Duration::from_millis(*deadline_ms);
                Self::res(call(move || engine.open(now, deadline)))
            }
            Event::Close => {
                self.out_buf = None;
                self.out_written = 0;
                let engine = &mut self.engine;
                Self::res(call(move || engine.close(now)))
            }
            Event::Deliver(bytes) => {
                let engine = &mut self.engine;
                match call(move || engine.incoming(now, bytes)) {
                    Ok((r, events)) => {
                        inbound = events.into_iter().map(map_inbound).collect();
                        Self::res(Ok(r))
                    }
                    Err((m, l)) => CallResult::Panic(m, l),
                }
            }
            Event::Write(k) => {
                if let Some(buf) = &mut self.out_buf {
                    let avail = buf.len() - self.out_written;
                    let k = usize::min(*k, avail);
                    written = buf[self.out_written..self.out_written + k].to_vec();
                    self.out_written += k;
                }
                CallResult::None
            }
            Event::WriteComplete => {
                if let Some(buf) = &mut self.out_buf {
                    buf.clear();
                }
                self.out_written = 0;
                let engine = &mut self.engine;
                Self::res(call(move || engine.write_complete(now)))
            }
            Event::Service => {
                if let Some(buf) = &mut self.out_buf {
                    let before = buf.len();
                    let engine = &mut self.engine;
                    let r = {
                        let b: &mut Vec<u8> = buf;
                        call(move || engine.service(now, b))
                    };
                    if buf.len() > before {
                        emitted = buf[before..].to_vec();
                    }
                    Self::res(r)
                } else {
                    // no connection: the drivers never call service here; the engine accepts it
                    let mut scratch = Vec::with_capacity(self.buf_capacity);
                    let engine = &mut self.engine;
                    let r = call(|| engine.service(now, &mut scratch));
                    emitted = scratch;
                    Self::res(r)
                }
            }
            Event::Advance(dt) => {
                self.now_ms += *dt;
                CallResult::None
            }
            Event::Reset => {
                let engine = &mut self.engine;
                match call(move || engine.reset(now)) {
                    Ok(()) => CallResult::None,
                    Err((m, l)) => CallResult::Panic(m, l),
                }
            }
        };

        if result.is_panic() {
            self.poisoned = true;
        }

        let completions = self.engine.take_completions().into_iter().map(|c| (c.tag, map_outcome(c.outcome))).collect();
        let state_after = self.engine.state();
        let now2 = self.now();
        let (next_service_ms, next_service_panic) = if self.poisoned {
            (None, None)
        } else {
            let engine = &mut self.engine;
            match call(move || engine.next_service(now2)) {
                Ok(v) => (v.map(|d| d.as_millis() as u64), None),
                Err(p) => { self.poisoned = true; (None, Some(p)) }
            }
        };

        let record = StepRecord {
            index: self.steps,
            time_ms: self.now_ms,
            event,
            result,
            emitted,
            written,
            completions,
            inbound,
            state_before,
            state_after,
            next_service_ms,
            next_service_panic,
            current_op_before,
        };
        self.steps += 1;
        record
    }

    pub fn snapshot(&self) -> gv::Snapshot {
        self.engine.snapshot()
    }
}

/* ---------------------------------------------------------------------------------------- */
/* JSON (replay files, samples)                                                               */
/* ---------------------------------------------------------------------------------------- */

pub fn hex(b: &[u8]) -> String {
    let mut s = String::with_capacity(b.len() * 2);
    for x in b { s.push_str(&format!("{:02x}", x)); }
    s
}

pub fn unhex(s: &str) -> Vec<u8> {
    let b = s.as_bytes();
    let mut out = Vec::with_capacity(b.len() / 2);
    let mut i = 0;
    while i + 1 < b.len() {
        out.push(u8::from_str_radix(&s[i..i + 2], 16).unwrap_or(0));
        i += 2;
    }
    out
}

fn props_json(p: &Vec<(String, String)>) -> Value {
    Value::Array(p.iter().map(|(k, v)| json!([k, v])).collect())
}

fn props_from(v: &Value) -> Vec<(String, String)> {
    v.as_array().map(|a| a.iter().map(|kv| (kv[0].as_str().unwrap_or("").to_string(), kv[1].as_str().unwrap_or("").to_string())).collect()).unwrap_or_default()
}

fn opt_hex(v: &Option<Vec<u8>>) -> Value { v.as_ref().map(|b| Value::String(hex(b))).unwrap_or(Value::Null) }
fn opt_unhex(v: &Value) -> Option<Vec<u8>> { v.as_str().map(unhex) }
fn opt_str(v: &Value) -> Option<String> { v.as_str().map(|s| s.to_string()) }

pub fn publish_spec_json(p: &PublishSpec) -> Value {
    json!({"topic": p.topic, "qos": p.qos, "retain": p.retain, "payload": opt_hex(&p.payload), "payload_format": p.payload_format,
        "message_expiry": p.message_expiry, "response_topic": p.response_topic, "correlation_data": opt_hex(&p.correlation_data),
        "content_type": p.content_type, "user_props": props_json(&p.user_props), "topic_alias": p.topic_alias})
}

pub fn publish_spec_from(v: &Value) -> PublishSpec {
    PublishSpec {
        topic: v["topic"].as_str().unwrap_or("").to_string(),
        qos: v["qos"].as_u64().unwrap_or(0) as u8,
        retain: v["retain"].as_bool().unwrap_or(false),
        payload: opt_unhex(&v["payload"]),
        payload_format: v["payload_format"].as_u64().map(|x| x as u8),
        message_expiry: v["message_expiry"].as_u64().map(|x| x as u32),
        response_topic: opt_str(&v["response_topic"]),
        correlation_data: opt_unhex(&v["correlation_data"]),
        content_type: opt_str(&v["content_type"]),
        user_props: props_from(&v["user_props"]),
        topic_alias: v["topic_alias"].as_u64().map(|x| x as u16),
    }
}

pub fn op_json(op: &OpSpec) -> Value {
    let body = match &op.body {
        OpBody::Publish(p) => json!({"publish": publish_spec_json(p)}),
        OpBody::Subscribe(s) => json!({"subscribe": {"subs": s.subs.iter().map(|x| json!({"filter": x.filter, "qos": x.qos, "no_local": x.no_local, "rap": x.retain_as_published, "rh": x.retain_handling})).collect::<Vec<_>>(), "subscription_id": s.subscription_id, "user_props": props_json(&s.user_props)}}),
        OpBody::Unsubscribe(u) => json!({"unsubscribe": {"filters": u.filters, "user_props": props_json(&u.user_props)}}),
    };
    json!({"tag": op.tag, "body": body, "ack_timeout_ms": op.ack_timeout_ms, "ack_timeout_max": op.ack_timeout_max})
}

pub fn op_from(v: &Value) -> OpSpec {
    let b = &v["body"];
    let body = if !b["publish"].is_null() {
        OpBody::Publish(publish_spec_from(&b["publish"]))
    } else if !b["subscribe"].is_null() {
        let s = &b["subscribe"];
        OpBody::Subscribe(SubscribeSpec {
            subs: s["subs"].as_array().map(|a| a.iter().map(|x| rf::Subscription { filter: x["filter"].as_str().unwrap_or("").to_string(), qos: x["qos"].as_u64().unwrap_or(0) as u8, no_local: x["no_local"].as_bool().unwrap_or(false), retain_as_published: x["rap"].as_bool().unwrap_or(false), retain_handling: x["rh"].as_u64().unwrap_or(0) as u8 }).collect()).unwrap_or_default(),
            subscription_id: s["subscription_id"].as_u64().map(|x| x as u32),
            user_props: props_from(&s["user_props"]),
        })
    } else {
        let u = &b["unsubscribe"];
        OpBody::Unsubscribe(UnsubscribeSpec { filters: u["filters"].as_array().map(|a| a.iter().map(|x| x.as_str().unwrap_or("").to_string()).collect()).unwrap_or_default(), user_props: props_from(&u["user_props"]) })
    };
    OpSpec { tag: v["tag"].as_u64().unwrap_or(0), body, ack_timeout_ms: v["ack_timeout_ms"].as_u64(), ack_timeout_max: v["ack_timeout_max"].as_bool().unwrap_or(false) }
}

pub fn event_json(e: &Event) -> Value {
    match e {
        Event::Submit(op) => json!({"submit": op_json(op)}),
        Event::SubmitDisconnect(d) => json!({"submit_disconnect": {"reason": d.reason, "session_expiry": d.session_expiry, "reason_string": d.reason_string, "user_props": props_json(&d.user_props)}}),
        Event::Open { deadline_ms } => json!({"open": deadline_ms}),
        Event::Close => json!("close"),
        Event::Deliver(b) => json!({"deliver": hex(b)}),
        Event::Write(k) => json!({"write": k}),
        Event::WriteComplete => json!("write_complete"),
        Event::Service => json!("service"),
        Event::Advance(dt) => json!({"advance": dt}),
        Event::Reset => json!("reset"),
    }
}

pub fn event_from(v: &Value) -> Option<Event> {
    if let Some(s) = v.as_str() {
        return match s {
            "close" => Some(Event::Close),
            "write_complete" => Some(Event::WriteComplete),
            "service" => Some(Event::Service),
            "reset" => Some(Event::Reset),
            _ => None,
        };
    }
    if !v["submit"].is_null() { return Some(Event::Submit(op_from(&v["submit"]))); }
    if !v["submit_disconnect"].is_null() {
        let d = &v["submit_disconnect"];
        return Some(Event::SubmitDisconnect(DisconnectSpec { reason: d["reason"].as_u64().unwrap_or(0) as u8, session_expiry: d["session_expiry"].as_u64().map(|x| x as u32), reason_string: opt_str(&d["reason_string"]), user_props: props_from(&d["user_props"]) }));
    }
    if let Some(d) = v["open"].as_u64() { return Some(Event::Open { deadline_ms: d }); }
    if let Some(h) = v["deliver"].as_str() { return Some(Event::Deliver(unhex(h))); }
    if let Some(k) = v["write"].as_u64() { return Some(Event::Write(k as usize)); }
    if let Some(k) = v["advance"].as_u64() { return Some(Event::Advance(k)); }
    None
}

pub fn connect_spec_json(c: &ConnectSpec) -> Value {
    json!({"keep_alive": c.keep_alive, "rejoin": c.rejoin, "client_id": c.client_id, "username": c.username, "password": opt_hex(&c.password),
        "session_expiry": c.session_expiry, "rri": c.request_response_information, "rpi": c.request_problem_information,
        "receive_maximum": c.receive_maximum, "topic_alias_maximum": c.topic_alias_maximum, "maximum_packet_size": c.maximum_packet_size,
        "will_delay": c.will_delay, "will": c.will.as_ref().map(publish_spec_json), "user_props": props_json(&c.user_props)})
}

pub fn connect_spec_from(v: &Value) -> ConnectSpec {
    ConnectSpec {
        keep_alive: v["keep_alive"].as_u64().map(|x| x as u16),
        rejoin: v["rejoin"].as_u64().unwrap_or(0) as u8,
        client_id: opt_str(&v["client_id"]),
        username: opt_str(&v["username"]),
        password: opt_unhex(&v["password"]),
        session_expiry: v["session_expiry"].as_u64().map(|x| x as u32),
        request_response_information: v["rri"].as_bool(),
        request_problem_information: v["rpi"].as_bool(),
        receive_maximum: v["receive_maximum"].as_u64().map(|x| x as u16),
        topic_alias_maximum: v["topic_alias_maximum"].as_u64().map(|x| x as u16),
        maximum_packet_size: v["maximum_packet_size"].as_u64().map(|x| x as u32),
        will_delay: v["will_delay"].as_u64().map(|x| x as u32),
        will: if v["will"].is_null() { None } else { Some(publish_spec_from(&v["will"])) },
        user_props: props_from(&v["user_props"]),
    }
}

pub fn engine_spec_json(s: &EngineSpec) -> Value {
    let resolver = match &s.resolver { Resolver::Null => json!("null"), Resolver::Manual => json!("manual"), Resolver::Lru(n) => json!({"lru": n}) };
    json!({"connect": connect_spec_json(&s.connect), "policy": s.policy, "policy_name": policy_name(s.policy), "ping_timeout_ms": s.ping_timeout_ms, "ping_timeout_max": s.ping_timeout_max,
        "v5": s.v5, "one_at_a_time": s.one_at_a_time, "max_retries": s.max_retries, "resolver": resolver})
}

pub fn engine_spec_from(v: &Value) -> EngineSpec {
    let resolver = if v["resolver"] == json!("manual") { Resolver::Manual } else if let Some(n) = v["resolver"]["lru"].as_u64() { Resolver::Lru(n as u16) } else { Resolver::Null };
    EngineSpec {
        connect: connect_spec_from(&v["connect"]),
        policy: v["policy"].as_u64().unwrap_or(0) as u8,
        ping_timeout_ms: v["ping_timeout_ms"].as_u64().unwrap_or(10000),
        ping_timeout_max: v["ping_timeout_max"].as_bool().unwrap_or(false),
        v5: v["v5"].as_bool().unwrap_or(true),
        one_at_a_time: v["one_at_a_time"].as_bool().unwrap_or(false),
        max_retries: v["max_retries"].as_u64().map(|x| x as u32),
        resolver,
    }
}
