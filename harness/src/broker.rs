//! Reference broker: server-side model over the decoded client→server stream.  Produces replies
//! under a seeded policy.  In honest mode everything it sends is legal MQTT server behaviour.

use crate::refmqtt as rf;
use crate::rng::Rng;
use crate::world::token_payload;
use std::collections::{BTreeMap, HashMap, HashSet};

#[derive(Clone, Debug)]
pub struct BrokerProfile {
    /// percent of CONNECTs answered with a failing CONNACK
    pub connack_fail_pct: u64,
    /// percent of CONNECTs never answered
    pub connack_silent_pct: u64,
    pub connack_delay_max_ms: u64,
    /// percent chance to keep the session when the client asks to resume and we have one
    pub session_keep_pct: u64,
    /// randomise CONNACK capabilities
    pub random_caps: bool,
    pub receive_maximum_choices: Vec<Option<u16>>,
    pub server_keep_alive_choices: Vec<Option<u16>>,
    pub topic_alias_maximum_choices: Vec<Option<u16>>,
    pub assigned_client_id: bool,
    pub ack_delay_max_ms: u64,
    pub ack_withhold_pct: u64,
    pub negative_pct: u64,
    /// how many broker-initiated publishes per connection (upper bound) and their spacing
    pub inbound_count: usize,
    pub inbound_gap_max_ms: u64,
    pub inbound_qos_weights: [u64; 3],
    /// percent of inbound QoS2 publishes that are repeated (same id) before the PUBREL
    pub inbound_repeat_pct: u64,
    /// use topic aliases on inbound publishes when the client allows it
    pub inbound_alias: bool,
    /// percent of inbound publishes that use an invalid alias (unknown / zero / above the maximum)
    pub inbound_bad_alias_pct: u64,
    /// percent of replies replaced by a protocol-violating one (C11 only)
    pub hostile_pct: u64,
    /// percent of deliveries that are random garbage (C11 only)
    pub garbage_pct: u64,
    /// CONNACK may be sent as soon as the first byte of the CONNECT has been written (C07/C11)
    pub early_connack_pct: u64,
    /// PINGRESP delay policy: None = prompt, Some((lo, hi)) ms
    pub ping_delay_ms: Option<(u64, u64)>,
    pub ping_withhold_pct: u64,
    /// send a server DISCONNECT at a random moment (v5 only), percent per connection
    pub server_disconnect_pct: u64,
    /// attach tokens (reason strings) to acks when allowed
    pub tokens: bool,
}

impl Default for BrokerProfile {
    fn default() -> Self {
        BrokerProfile {
            connack_fail_pct: 0, connack_silent_pct: 0, connack_delay_max_ms: 0, session_keep_pct: 70, random_caps: false,
            receive_maximum_choices: vec![None], server_keep_alive_choices: vec![None], topic_alias_maximum_choices: vec![None],
            assigned_client_id: false, ack_delay_max_ms: 0, ack_withhold_pct: 0, negative_pct: 0, inbound_count: 0, inbound_gap_max_ms: 50,
            inbound_qos_weights: [1, 1, 1], inbound_repeat_pct: 0, inbound_alias: false, inbound_bad_alias_pct: 0, hostile_pct: 0, garbage_pct: 0,
            early_connack_pct: 0, ping_delay_ms: None, ping_withhold_pct: 0, server_disconnect_pct: 0, tokens: true,
        }
    }
}

impl BrokerProfile {
    pub fn honest(&self) -> bool {
        self.hostile_pct == 0 && self.garbage_pct == 0 && self.inbound_bad_alias_pct == 0 && self.early_connack_pct == 0
    }
}

#[derive(Clone, Debug)]
struct OutboundFlow {
    packet_id: u16,
    qos: u8,
    token: u64,
    topic: String,
    /// QoS2: PUBREC received, PUBREL sent, awaiting PUBCOMP
    released: bool,
}

#[derive(Default)]
struct Session {
    /// QoS2 ids for which a PUBLISH was received and PUBREL not yet
    c2s_qos2: HashSet<u16>,
    /// server→client QoS>0 flows not finished
    s2c: Vec<OutboundFlow>,
}

struct ConnState {
    connect: Option<rf::Connect>,
    connack_sent: bool,
    connack_ok: bool,
    client_receive_maximum: u16,
    client_alias_maximum: u16,
    client_max_packet: u32,
    problem_info: bool,
    inbound_left: usize,
    next_inbound_at: u64,
    alias_out: HashMap<u16, String>,
    server_disconnect_at: Option<u64>,
    dead: bool,
}

pub struct Broker {
    pub profile: BrokerProfile,
    v5: bool,
    rng: Rng,
    session: Option<Session>,
    conn: Option<ConnState>,
    /// (due time, sequence) → bytes
    queue: BTreeMap<(u64, u64), Vec<u8>>,
    seq: u64,
    next_token: u64,
    next_s2c_id: u16,
    pub stats: BrokerStats,
    topics: Vec<String>,
}

#[derive(Default, Debug, Clone)]
pub struct BrokerStats {
    pub connacks_ok: usize,
    pub connacks_fail: usize,
    pub connacks_silent: usize,
    pub sessions_resumed: usize,
    pub acks_sent: usize,
    pub acks_withheld: usize,
    pub negative_acks: usize,
    pub inbound_sent: usize,
    pub inbound_repeats: usize,
    pub inbound_bad_alias: usize,
    pub hostile_sent: usize,
    pub garbage_sent: usize,
    pub pingresps: usize,
    pub pings_withheld: usize,
    pub server_disconnects: usize,
}

impl Broker {
    pub fn new(profile: BrokerProfile, v5: bool, seed: u64) -> Broker {
        Broker {
            profile, v5, rng: Rng::new(seed), session: None, conn: None, queue: BTreeMap::new(), seq: 0, next_token: 1, next_s2c_id: 1,
            stats: BrokerStats::default(), topics: vec!["in/a".into(), "in/b".into(), "in/c/d".into(), "in/e".into()],
        }
    }

    pub fn on_open(&mut self, now: u64) {
        let count = if self.profile.inbound_count > 0 { self.rng.range(0, self.profile.inbound_count as u64) as usize } else { 0 };
        self.queue.clear();
        self.conn = Some(ConnState {
            connect: None, connack_sent: false, connack_ok: false, client_receive_maximum: 65535, client_alias_maximum: 0, client_max_packet: u32::MAX,
            problem_info: true, inbound_left: count, next_inbound_at: now, alias_out: HashMap::new(), server_disconnect_at: None, dead: false,
        });
    }

    pub fn on_close(&mut self) {
        self.conn = None;
        self.queue.clear();
    }

    fn push(&mut self, due: u64, bytes: Vec<u8>) {
        self.seq += 1;
        self.queue.insert((due, self.seq), bytes);
    }

    fn token(&mut self) -> u64 {
        let t = self.next_token;
        self.next_token += 1;
        t
    }

    fn enc(&self, p: &rf::Packet) -> Vec<u8> {
        let knobs = rf::Knobs { property_order_seed: self.seq.wrapping_mul(7919).wrapping_add(1), no_elision: false };
        rf::encode(p, self.v5, &knobs)
    }

    fn ack_token(&mut self) -> Option<String> {
        let allowed = self.v5 && self.profile.tokens && self.conn.as_ref().map(|c| c.problem_info).unwrap_or(false);
        if allowed { let t = self.token(); Some(format!("k{}", t)) } else { None }
    }

    fn delay(&mut self) -> u64 {
        if self.profile.ack_delay_max_ms == 0 { 0 } else { self.rng.range(0, self.profile.ack_delay_max_ms) }
    }

    /// a PINGRESP has been scheduled and not yet delivered
    pub fn pingresp_pending(&self) -> bool { self.queue.values().any(|b| b.len() == 2 && b[0] == 0xD0) }

    pub fn next_due(&self) -> Option<u64> {
        let q = self.queue.keys().next().map(|(t, _)| *t);
        let inbound = self.conn.as_ref().and_then(|c| if c.connack_ok && !c.dead && c.inbound_left > 0 { Some(c.next_inbound_at) } else { None });
        let sd = self.conn.as_ref().and_then(|c| if c.connack_ok && !c.dead { c.server_disconnect_at } else { None });
        [q, inbound, sd].iter().flatten().min().copied()
    }

    /// the client wrote the first byte(s) of a connection (used for the early-CONNACK behaviour)
    pub fn on_first_bytes(&mut self, now: u64) {
        if self.profile.early_connack_pct > 0 && self.rng.chance(self.profile.early_connack_pct, 100) {
            if let Some(c) = &mut self.conn {
                if !c.connack_sent {
                    c.connack_sent = true;
                    c.connack_ok = true;
                    let k = rf::Connack { session_present: false, reason: 0, ..Default::default() };
                    let bytes = self.enc(&rf::Packet::Connack(k));
                    self.stats.hostile_sent += 1;
                    self.session = Some(Session::default());
                    self.push(now, bytes);
                }
            }
        }
    }

    fn hostile_reply(&mut self, now: u64, about_id: u16) {
        self.stats.hostile_sent += 1;
        let id = if self.rng.chance(1, 2) { about_id.max(1) } else { self.rng.range(1, 65535) as u16 };
        let choice = self.rng.below(10);
        let p = match choice {
            0 => rf::Packet::Puback(rf::Ack { packet_id: id, ..Default::default() }),
            1 => rf::Packet::Pubrec(rf::Ack { packet_id: id, ..Default::default() }),
            2 => rf::Packet::Pubcomp(rf::Ack { packet_id: id, ..Default::default() }),
            3 => rf::Packet::Suback(rf::Suback { packet_id: id, codes: vec![0; self.rng.range(1, 3) as usize], ..Default::default() }),
            4 => rf::Packet::Unsuback(rf::Unsuback { packet_id: id, codes: vec![0; self.rng.range(1, 3) as usize], ..Default::default() }),
            5 => rf::Packet::Connack(rf::Connack::default()),
            6 => rf::Packet::Pingresp,
            7 => rf::Packet::Pubrel(rf::Ack { packet_id: id, ..Default::default() }),
            8 => if self.v5 { rf::Packet::Auth(rf::Auth { reason: 0x18, authentication_method: Some("m".into()), ..Default::default() }) } else { rf::Packet::Pingreq },
            _ => rf::Packet::Subscribe(rf::Subscribe { packet_id: id, subscriptions: vec![rf::Subscription { filter: "a".into(), ..Default::default() }], ..Default::default() }),
        };
        let bytes = self.enc(&p);
        self.push(now, bytes);
    }

    /// a complete client→server packet reached the broker
    pub fn on_packet(&mut self, now: u64, packet: &rf::Packet) {
        if self.conn.is_none() || self.conn.as_ref().unwrap().dead { return; }
        if self.profile.hostile_pct > 0 && self.rng.chance(self.profile.hostile_pct, 100) {
            let id = match packet {
                rf::Packet::Publish(p) => p.packet_id.unwrap_or(1),
                rf::Packet::Subscribe(s) => s.packet_id,
                rf::Packet::Unsubscribe(s) => s.packet_id,
                rf::Packet::Pubrel(a) => a.packet_id,
                _ => 1,
            };
            self.hostile_reply(now, id);
            if self.rng.chance(1, 2) { return; }
        }
        match packet {
            rf::Packet::Connect(c) => self.on_connect(now, c),
            rf::Packet::Publish(p) => {
                if !self.conn.as_ref().unwrap().connack_ok { return; }
                match p.qos {
                    1 => {
                        if self.rng.chance(self.profile.ack_withhold_pct, 100) { self.stats.acks_withheld += 1; return; }
                        let reason = self.pick_reason(rf::PUBACK_REASONS);
                        let token = self.ack_token();
                        let d = self.delay();
                        let bytes = self.enc(&rf::Packet::Puback(rf::Ack { packet_id: p.packet_id.unwrap_or(0), reason, reason_string: token, user_props: vec![] }));
                        self.stats.acks_sent += 1;
                        self.push(now + d, bytes);
                    }
                    2 => {
                        let id = p.packet_id.unwrap_or(0);
                        if self.rng.chance(self.profile.ack_withhold_pct, 100) { self.stats.acks_withheld += 1; return; }
                        let known = self.session.as_ref().map(|s| s.c2s_qos2.contains(&id)).unwrap_or(false);
                        let reason = if known { 0 } else { self.pick_reason(rf::PUBREC_REASONS) };
                        if reason < 0x80 {
                            if let Some(s) = &mut self.session { s.c2s_qos2.insert(id); }
                        }
                        let token = self.ack_token();
                        let d = self.delay();
                        let bytes = self.enc(&rf::Packet::Pubrec(rf::Ack { packet_id: id, reason, reason_string: token, user_props: vec![] }));
                        self.stats.acks_sent += 1;
                        self.push(now + d, bytes);
                    }
                    _ => {}
                }
            }
            rf::Packet::Pubrel(a) => {
                if !self.conn.as_ref().unwrap().connack_ok { return; }
                if self.rng.chance(self.profile.ack_withhold_pct, 100) { self.stats.acks_withheld += 1; return; }
                let known = self.session.as_mut().map(|s| s.c2s_qos2.remove(&a.packet_id)).unwrap_or(false);
                let reason = if known || !self.v5 { 0 } else { 0x92 };
                let token = self.ack_token();
                let d = self.delay();
                let bytes = self.enc(&rf::Packet::Pubcomp(rf::Ack { packet_id: a.packet_id, reason, reason_string: token, user_props: vec![] }));
                self.stats.acks_sent += 1;
                self.push(now + d, bytes);
            }
            rf::Packet::Subscribe(s) => {
                if !self.conn.as_ref().unwrap().connack_ok { return; }
                if self.rng.chance(self.profile.ack_withhold_pct, 100) { self.stats.acks_withheld += 1; return; }
                let mut codes = Vec::new();
                for sub in &s.subscriptions {
                    let neg = self.rng.chance(self.profile.negative_pct, 100);
                    let code = if neg {
                        if self.v5 { *self.rng.pick(&rf::SUBACK_REASONS5[3..]) } else { 0x80 }
                    } else {
                        self.rng.range(0, sub.qos as u64) as u8
                    };
                    if neg { self.stats.negative_acks += 1; }
                    codes.push(code);
                }
                let token = self.ack_token();
                let d = self.delay();
                let bytes = self.enc(&rf::Packet::Suback(rf::Suback { packet_id: s.packet_id, reason_string: token, user_props: vec![], codes }));
                self.stats.acks_sent += 1;
                self.push(now + d, bytes);
            }
            rf::Packet::Unsubscribe(u) => {
                if !self.conn.as_ref().unwrap().connack_ok { return; }
                if self.rng.chance(self.profile.ack_withhold_pct, 100) { self.stats.acks_withheld += 1; return; }
                let mut codes = Vec::new();
                for _ in &u.filters {
                    let neg = self.rng.chance(self.profile.negative_pct, 100);
                    if neg { self.stats.negative_acks += 1; }
                    codes.push(if neg { *self.rng.pick(&rf::UNSUBACK_REASONS[1..]) } else { 0 });
                }
                let token = self.ack_token();
                let d = self.delay();
                let bytes = self.enc(&rf::Packet::Unsuback(rf::Unsuback { packet_id: u.packet_id, reason_string: token, user_props: vec![], codes }));
                self.stats.acks_sent += 1;
                self.push(now + d, bytes);
            }
            rf::Packet::Pingreq => {
                if !self.conn.as_ref().unwrap().connack_ok { return; }
                if self.rng.chance(self.profile.ping_withhold_pct, 100) { self.stats.pings_withheld += 1; return; }
                let d = match self.profile.ping_delay_ms { None => 0, Some((lo, hi)) => self.rng.range(lo, hi) };
                self.stats.pingresps += 1;
                self.push(now + d, vec![0xD0, 0]);
            }
            rf::Packet::Puback(a) => {
                if let Some(s) = &mut self.session { s.s2c.retain(|f| !(f.packet_id == a.packet_id && f.qos == 1)); }
            }
            rf::Packet::Pubrec(a) => {
                let mut send = false;
                if let Some(s) = &mut self.session {
                    for f in s.s2c.iter_mut() {
                        if f.packet_id == a.packet_id && f.qos == 2 { f.released = true; send = true; }
                    }
                }
                if send || true {
                    // a PUBREL is the legal answer to any PUBREC
                    let d = self.delay();
                    let bytes = self.enc(&rf::Packet::Pubrel(rf::Ack { packet_id: a.packet_id, ..Default::default() }));
                    self.push(now + d, bytes);
                }
            }
            rf::Packet::Pubcomp(a) => {
                if let Some(s) = &mut self.session { s.s2c.retain(|f| !(f.packet_id == a.packet_id && f.qos == 2)); }
            }
            rf::Packet::Disconnect(_) => {
                if let Some(c) = &mut self.conn { c.dead = true; }
                self.queue.clear();
            }
            _ => {}
        }
    }

    fn pick_reason(&mut self, table: &[u8]) -> u8 {
        if self.v5 && self.rng.chance(self.profile.negative_pct, 100) {
            self.stats.negative_acks += 1;
            *self.rng.pick(&table[1..])
        } else {
            0
        }
    }

    fn on_connect(&mut self, now: u64, c: &rf::Connect) {
        let already = self.conn.as_ref().unwrap().connack_sent;
        if already { return; }
        {
            let conn = self.conn.as_mut().unwrap();
            conn.connect = Some(c.clone());
            conn.connack_sent = true;
            conn.client_receive_maximum = c.receive_maximum.unwrap_or(65535);
            conn.client_alias_maximum = c.topic_alias_maximum.unwrap_or(0);
            conn.client_max_packet = c.maximum_packet_size.unwrap_or(u32::MAX);
            conn.problem_info = c.request_problem_information.unwrap_or(1) == 1;
        }
        if self.rng.chance(self.profile.connack_silent_pct, 100) {
            self.stats.connacks_silent += 1;
            return;
        }
        let d = if self.profile.connack_delay_max_ms == 0 { 0 } else { self.rng.range(0, self.profile.connack_delay_max_ms) };
        if self.rng.chance(self.profile.connack_fail_pct, 100) {
            self.stats.connacks_fail += 1;
            let reason = if self.v5 { *self.rng.pick(&rf::CONNACK_REASONS5[1..]) } else { *self.rng.pick(&rf::CONNACK_RETURN_CODES311[1..]) };
            let bytes = self.enc(&rf::Packet::Connack(rf::Connack { session_present: false, reason, ..Default::default() }));
            self.push(now + d, bytes);
            return;
        }
        let mut present = false;
        if c.clean_start {
            self.session = Some(Session::default());
        } else if self.session.is_some() && self.rng.chance(self.profile.session_keep_pct, 100) {
            present = true;
        } else {
            self.session = Some(Session::default());
        }
        let mut k = rf::Connack { session_present: present, reason: 0, ..Default::default() };
        if self.v5 {
            let rm = self.rng.pick(&self.profile.receive_maximum_choices.clone()).clone();
            k.receive_maximum = rm;
            k.server_keep_alive = self.rng.pick(&self.profile.server_keep_alive_choices.clone()).clone();
            k.topic_alias_maximum = self.rng.pick(&self.profile.topic_alias_maximum_choices.clone()).clone();
            if self.profile.assigned_client_id && c.client_id.is_empty() {
                k.assigned_client_id = Some(format!("assigned-{}", self.token()));
            }
            if self.profile.random_caps {
                if self.rng.chance(1, 2) { k.maximum_qos = Some(self.rng.below(2) as u8); }
                if self.rng.chance(1, 2) { k.retain_available = Some(self.rng.below(2) as u8); }
                if self.rng.chance(1, 2) { k.maximum_packet_size = Some(*self.rng.pick(&[40u32, 64, 100, 200, 1000, 70000, 268435455])); }
                if self.rng.chance(1, 2) { k.wildcard_available = Some(self.rng.below(2) as u8); }
                if self.rng.chance(1, 2) { k.subscription_ids_available = Some(self.rng.below(2) as u8); }
                if self.rng.chance(1, 2) { k.shared_available = Some(self.rng.below(2) as u8); }
                if self.rng.chance(1, 3) { k.session_expiry = Some(self.rng.below(10000) as u32); }
                if self.rng.chance(1, 4) { k.response_information = Some("resp/info".into()); }
                if self.rng.chance(1, 4) { k.reason_string = Some("welcome".into()); }
                if self.rng.chance(1, 4) { k.user_props = vec![("a".into(), "b".into())]; }
            }
        }
        self.stats.connacks_ok += 1;
        if present { self.stats.sessions_resumed += 1; }
        {
            let sd = if self.v5 && self.rng.chance(self.profile.server_disconnect_pct, 100) { Some(now + d + self.rng.range(1, 2000)) } else { None };
            let conn = self.conn.as_mut().unwrap();
            conn.connack_ok = true;
            conn.next_inbound_at = now + d;
            conn.server_disconnect_at = sd;
        }
        let bytes = self.enc(&rf::Packet::Connack(k));
        self.push(now + d, bytes);
        if present {
            // retransmit unfinished server→client flows
            let flows: Vec<OutboundFlow> = self.session.as_ref().map(|s| s.s2c.clone()).unwrap_or_default();
            for f in flows {
                let p = if f.released {
                    rf::Packet::Pubrel(rf::Ack { packet_id: f.packet_id, ..Default::default() })
                } else {
                    rf::Packet::Publish(rf::Publish { dup: true, qos: f.qos, topic: f.topic.clone(), packet_id: Some(f.packet_id), payload: token_payload(f.token, b""), ..Default::default() })
                };
                let bytes = self.enc(&p);
                self.push(now + d, bytes);
            }
        }
    }

    fn fresh_s2c_id(&mut self) -> u16 {
        loop {
            let id = self.next_s2c_id;
            self.next_s2c_id = if self.next_s2c_id == 65535 { 1 } else { self.next_s2c_id + 1 };
            let used = self.session.as_ref().map(|s| s.s2c.iter().any(|f| f.packet_id == id)).unwrap_or(false);
            if !used { return id; }
        }
    }

    fn generate_inbound(&mut self, now: u64) {
        let (alias_max, rm) = { let c = self.conn.as_ref().unwrap(); (c.client_alias_maximum, c.client_receive_maximum) };
        let w = self.profile.inbound_qos_weights;
        let total = w[0] + w[1] + w[2];
        let r = self.rng.below(total.max(1));
        let mut qos = if r < w[0] { 0 } else if r < w[0] + w[1] { 1 } else { 2 };
        let inflight = self.session.as_ref().map(|s| s.s2c.len()).unwrap_or(0);
        if qos > 0 && inflight >= rm as usize { qos = 0; }
        let topic = self.rng.pick(&self.topics.clone()).clone();
        let token = self.token();
        let mut p = rf::Publish { qos, topic: topic.clone(), payload: token_payload(token, b"x"), ..Default::default() };
        if qos > 0 {
            let id = self.fresh_s2c_id();
            p.packet_id = Some(id);
            if let Some(s) = &mut self.session { s.s2c.push(OutboundFlow { packet_id: id, qos, token, topic: topic.clone(), released: false }); }
        }
        if self.v5 && self.profile.inbound_bad_alias_pct > 0 && self.rng.chance(self.profile.inbound_bad_alias_pct, 100) {
            self.stats.inbound_bad_alias += 1;
            match self.rng.below(3) {
                0 => { p.topic_alias = Some(0); }
                1 => { p.topic_alias = Some(alias_max.saturating_add(1).max(1)); if alias_max == 65535 { p.topic_alias = Some(0); } }
                _ => {
                    // an alias that was never bound, with an empty topic
                    let mut a = 1u16;
                    while self.conn.as_ref().unwrap().alias_out.contains_key(&a) && a < 60000 { a += 1; }
                    p.topic_alias = Some(a);
                    p.topic = String::new();
                }
            }
        } else if self.v5 && self.profile.inbound_alias && alias_max > 0 {
            let a = self.rng.range(1, alias_max.min(4) as u64) as u16;
            let conn = self.conn.as_mut().unwrap();
            match conn.alias_out.get(&a) {
                Some(t) if *t == topic => { p.topic_alias = Some(a); p.topic = String::new(); }
                _ => { conn.alias_out.insert(a, topic.clone()); p.topic_alias = Some(a); }
            }
        }
        let bytes = self.enc(&rf::Packet::Publish(p.clone()));
        self.stats.inbound_sent += 1;
        self.push(now, bytes);
        if qos == 2 && self.rng.chance(self.profile.inbound_repeat_pct, 100) {
            self.stats.inbound_repeats += 1;
            let mut again = p.clone();
            again.dup = true;
            if again.topic.is_empty() {
                again.topic = topic;
                again.topic_alias = None;
            }
            let bytes = self.enc(&rf::Packet::Publish(again));
            let extra_delay = self.rng.range(0, 5);
            self.push(now + extra_delay, bytes);
        }
    }

    /// everything due at `now`, concatenated in order
    pub fn poll(&mut self, now: u64) -> Vec<u8> {
        if let Some(c) = &self.conn {
            if c.connack_ok && !c.dead {
                if c.inbound_left > 0 && c.next_inbound_at <= now {
                    self.generate_inbound(now);
                    let gap = self.rng.range(0, self.profile.inbound_gap_max_ms);
                    let c = self.conn.as_mut().unwrap();
                    c.inbound_left -= 1;
                    c.next_inbound_at = now + gap;
                }
                let sd_due = self.conn.as_ref().unwrap().server_disconnect_at.map(|t| t <= now).unwrap_or(false);
                if sd_due {
                    let reason = *self.rng.pick(rf::DISCONNECT_REASONS_SERVER);
                    let bytes = self.enc(&rf::Packet::Disconnect(rf::Disconnect { reason, reason_string: Some("bye".into()), ..Default::default() }));
                    self.stats.server_disconnects += 1;
                    self.push(now, bytes);
                    let c = self.conn.as_mut().unwrap();
                    c.server_disconnect_at = None;
                }
            }
        }
        let mut out = Vec::new();
        let due: Vec<(u64, u64)> = self.queue.keys().take_while(|(t, _)| *t <= now).copied().collect();
        for k in due {
            if let Some(b) = self.queue.remove(&k) {
                if self.profile.garbage_pct > 0 && self.rng.chance(self.profile.garbage_pct, 100) {
                    self.stats.garbage_sent += 1;
                    let mode = self.rng.below(4);
                    let mut g = b.clone();
                    match mode {
                        0 => { let n = self.rng.range(1, 40) as usize; g = self.rng.bytes(n); }
                        1 => { if !g.is_empty() { let i = self.rng.below(g.len() as u64) as usize; g[i] ^= 1 << self.rng.below(8); } }
                        2 => { let n = self.rng.below(g.len() as u64 + 1) as usize; g.truncate(n); g.extend(self.rng.bytes(3)); }
                        _ => { let n = self.rng.range(1, 6) as usize; let extra = self.rng.bytes(n); g.extend(extra); }
                    }
                    out.extend_from_slice(&g);
                } else {
                    out.extend_from_slice(&b);
                }
            }
        }
        out
    }

    pub fn has_session(&self) -> bool { self.session.is_some() }
}
