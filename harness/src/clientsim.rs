//! C12 / C19: driver-environment simulator around the real client implementation
//! (MqttClientImpl through the verif facade).  A transliteration of the loop both drivers share,
//! with a seeded transport and seeded user requests; monitors over the client event stream.

use crate::fuzz::*;
use crate::refmqtt as rf;
use crate::rng::Rng;
use crate::runner::*;
use gneiss_mqtt::client::config::*;
use gneiss_mqtt::client::ClientEvent;
use gneiss_mqtt::verif as gv;
use serde_json::{json, Value};
use std::panic::{catch_unwind, AssertUnwindSafe};
use std::time::{Duration, Instant};

#[derive(Clone, Copy, Debug, PartialEq, Eq)]
enum Want { Stopped, Running, Closed }

#[derive(Clone, Copy, Debug, PartialEq, Eq)]
enum Lang { Idle, AwaitOutcome, Connected }

struct Ctx<'a> {
    r: &'a mut Rng,
    l: &'a mut Local,
    client: gv::ClientImpl,
    v5: bool,
    log: Vec<String>,
    lang: Lang,
    want: Want,
    stops_requested_effective: usize,
    stopped_events: usize,
    attempts_after_stopped_without_start: bool,
    stopped_since_last_start: bool,
    last_lifecycle: Option<&'static str>,
    requests_left: usize,
    dead: bool,
    violated: bool,
    seed_info: Value,
    next_tag: u64,
    stop_with_disconnect_pending: bool,
    attempts: usize,
    shutdown_seen: bool,
    events_after_shutdown: usize,
    close_delivered: bool,
    state_at_close: Option<gv::ImplState>,
    /// judge the client-level C05 rules instead of the C12 rules
    c05_mode: bool,
    surfaced: Vec<u64>,
    next_token: u64,
}

impl<'a> Ctx<'a> {
    fn note(&mut self, s: String) { if self.log.len() < 400 { self.log.push(s); } }

    fn viol(&mut self, rule: &str, sig: &[(&str, String)], detail: String) {
        if self.c05_mode != rule.starts_with("C05") { return; }
        self.violated = true;
        let replay = json!({"kind": "clientsim", "case": self.seed_info, "log": self.log});
        self.l.violation(rule, sig, detail, replay);
    }

    fn drain_events(&mut self) {
        let events = self.client.take_events();
        for e in events {
            let name: &'static str = match &*e {
                ClientEvent::ConnectionAttempt(_) => "Attempt",
                ClientEvent::ConnectionSuccess(_) => "Success",
                ClientEvent::ConnectionFailure(_) => "Failure",
                ClientEvent::Disconnection(_) => "Disconnection",
                ClientEvent::Stopped(_) => "Stopped",
                ClientEvent::PublishReceived(_) => "PublishReceived",
                _ => "Other",
            };
            if let ClientEvent::PublishReceived(p) = &*e {
                if let Some(t) = p.publish.payload().and_then(crate::world::payload_token) { self.surfaced.push(t); }
            }
            if name == "PublishReceived" || name == "Other" { continue; }
            self.note(format!("event {}", name));
            self.l.count("c12.lifecycle_events");
            if self.shutdown_seen { self.events_after_shutdown += 1; }
            let before = self.lang;
            let ok = match (self.lang, name) {
                (Lang::Idle, "Attempt") => { self.lang = Lang::AwaitOutcome; true }
                (Lang::AwaitOutcome, "Failure") => { self.lang = Lang::Idle; true }
                (Lang::AwaitOutcome, "Success") => { self.lang = Lang::Connected; true }
                (Lang::Connected, "Disconnection") => { self.lang = Lang::Idle; true }
                (Lang::Idle, "Stopped") => true,
                _ => false,
            };
            if !ok {
                self.viol("C12.R1-event-stream-malformed", &[("state", format!("{:?}", before)), ("event", name.into())], format!("event {} while the stream is in {:?}", name, before));
            }
            if name == "Stopped" {
                self.stopped_events += 1;
                self.stopped_since_last_start = true;
            }
            if name == "Attempt" && self.close_delivered {
                // close is terminal: once the implementation has been handed the close request it may
                // finish what is in progress, but it must not begin another connection attempt
                let st = format!("{:?}", self.state_at_close);
                self.viol("C12.R8-attempt-after-close-request", &[("state_at_close", st)], "a new connection attempt was started after the close request had been handed to the client implementation".into());
            }
            if name == "Attempt" {
                self.attempts += 1;
                if self.stopped_since_last_start {
                    self.viol("C12.R2-attempt-after-stopped", &[], "a connection attempt was made after Stopped without a new start".into());
                }
            }
            self.last_lifecycle = Some(name);
        }
    }

    fn call<T>(&mut self, what: &str, f: impl FnOnce(&mut gv::ClientImpl) -> T) -> Option<T> {
        let c = &mut self.client;
        match catch_unwind(AssertUnwindSafe(move || f(c))) {
            Ok(v) => { self.drain_events(); Some(v) }
            Err(_) => {
                let (m, loc) = take_panic();
                let (m2, f2) = panic_signature(&m, &loc);
                self.dead = true;
                self.viol("C12.R0-panic", &[("call", what.into()), ("panic_message", m2), ("panic_file", f2)], format!("{} panicked: {} at {}", what, m, loc));
                None
            }
        }
    }

    /// maybe issue a user request (start / stop / close / operation)
    fn maybe_request(&mut self, force: bool) {
        // close ends the script: the statement says close is terminal, and requests issued after
        // it are outside what it promises
        if self.want == Want::Closed { self.requests_left = 0; }
        if self.requests_left == 0 || self.dead { return; }
        if !force && !self.r.chance(1, 3) { return; }
        self.requests_left -= 1;
        let choice = self.r.below(10);
        match choice {
            0 | 1 | 2 => {
                self.note("request start".into());
                self.want = Want::Running;
                self.stopped_since_last_start = false;
                self.stop_with_disconnect_pending = false;
                self.call("start", |c| c.start());
            }
            3 | 4 => {
                self.note("request stop".into());
                if self.want == Want::Running { self.stops_requested_effective += 1; }
                if self.want != Want::Closed { self.want = Want::Stopped; }
                self.call("stop", |c| c.stop(None));
            }
            5 | 6 => {
                self.note("request stop-with-disconnect".into());
                if self.want == Want::Running { self.stops_requested_effective += 1; }
                if self.want != Want::Closed { self.want = Want::Stopped; }
                self.stop_with_disconnect_pending = true;
                let d = build_disconnect(&DisconnectSpec::default());
                self.call("stop", |c| c.stop(Some(d)));
            }
            7 => {
                if self.requests_left < 3 {
                    self.requests_left = 0;
                    self.note("request close".into());
                    self.want = Want::Closed;
                    self.state_at_close = Some(self.client.current_state());
                    self.call("close", |c| c.shutdown());
                    self.close_delivered = true;
                    self.l.count("c12.close_requests");
                }
            }
            _ => {
                let tag = self.next_tag;
                self.next_tag += 1;
                self.note(format!("request publish tag {}", tag));
                let p = build_publish(&PublishSpec { topic: "c/d".into(), qos: self.r.below(3) as u8, payload: Some(crate::world::tagged_payload(tag, b"")), ..Default::default() });
                self.call("publish", |c| c.submit_publish(p, Default::default(), tag));
            }
        }
    }
}

#[derive(Clone, Copy, Debug)]
enum ConnectOutcome { Refused, TimedOut, Established }

#[derive(Clone, Copy, Debug, PartialEq, Eq)]
enum ServerMode { GoodConnack, FailingConnack, Garbage, Silent, EofAfterConnect }

/// runs one client history; returns the number of loop iterations
fn run_history(r: &mut Rng, l: &mut Local, idx: u64, c05_mode: bool) {
    let v5 = r.chance(2, 3);
    let mut cb = MqttClientOptions::builder();
    let connect_timeout_ms = *r.pick(&[30_000u64, 30_000, 3]);
    cb.with_connect_timeout(Duration::from_millis(connect_timeout_ms));
    cb.with_base_reconnect_period(Duration::from_millis(1));
    cb.with_max_reconnect_period(Duration::from_millis(5));
    cb.with_reconnect_period_jitter(ExponentialBackoffJitterType::None);
    cb.with_protocol_mode(if v5 { ProtocolMode::Mqtt5 } else { ProtocolMode::Mqtt311 });
    cb.with_offline_queue_policy(policy_of(r.below(4) as u8));
    let mut cs = ConnectSpec::default();
    cs.client_id = Some("sim".into());
    cs.keep_alive = *r.pick(&[Some(1200u16), Some(0), None]);
    let buf_cap = *r.pick(&[4usize, 8, 16, 64, 4096]);
    let seed_info = json!({"index": idx, "v5": v5, "connect_timeout_ms": connect_timeout_ms, "buffer": buf_cap});
    let client = match catch_unwind(AssertUnwindSafe(|| gv::ClientImpl::new(cb.build(), build_connect_options(&cs)))) {
        Ok(c) => c,
        Err(_) => { let _ = take_panic(); return; }
    };
    let requests = r.range(2, 9) as usize;
    let mut cx = Ctx {
        r, l, client, v5, log: Vec::new(), lang: Lang::Idle, want: Want::Stopped, stops_requested_effective: 0, stopped_events: 0, attempts_after_stopped_without_start: false,
        stopped_since_last_start: false, last_lifecycle: None, requests_left: requests, dead: false, violated: false, seed_info, next_tag: 1, stop_with_disconnect_pending: false,
        attempts: 0, shutdown_seen: false, events_after_shutdown: 0, close_delivered: false, state_at_close: None, c05_mode, surfaced: Vec::new(), next_token: 1,
    };
    cx.l.count("c12.histories");
    let max_iterations = 600usize;
    let mut iterations = 0usize;
    let mut connections = 0usize;
    let mut loop_alive = true;

    while loop_alive && iterations < max_iterations && !cx.dead {
        iterations += 1;
        let state = cx.client.current_state();
        let next: gv::ImplState = match state {
            gv::ImplState::Stopped => {
                // process_stopped: waits for a user operation
                let mut out = None;
                let mut spins = 0;
                while out.is_none() {
                    if cx.requests_left == 0 { break; }
                    cx.maybe_request(true);
                    if cx.dead { break; }
                    out = cx.client.compute_optional_state_transition();
                    spins += 1;
                    if spins > 50 { break; }
                }
                match out { Some(s) => s, None => break }
            }
            gv::ImplState::Connecting => {
                let outcome = match cx.r.below(5) { 0 => ConnectOutcome::Refused, 1 => ConnectOutcome::TimedOut, _ => ConnectOutcome::Established };
                let mut result = None;
                // user operations may arrive while connecting
                for _ in 0..cx.r.below(3) {
                    cx.maybe_request(false);
                    if cx.dead { break; }
                    if let Some(s) = cx.client.compute_optional_state_transition() { result = Some(s); break; }
                }
                if cx.dead { break; }
                match result {
                    Some(s) => s,
                    None => match outcome {
                        ConnectOutcome::Refused => { cx.note("transport refused".into()); cx.call("apply_error", |c| c.apply_connection_establishment_failure("refused")); gv::ImplState::PendingReconnect }
                        ConnectOutcome::TimedOut => { cx.note("transport timed out".into()); cx.call("apply_error", |c| c.apply_connection_establishment_failure("connection establishment timeout reached")); gv::ImplState::PendingReconnect }
                        ConnectOutcome::Established => { cx.note("transport established".into()); gv::ImplState::Connected }
                    },
                }
            }
            gv::ImplState::Connected => {
                connections += 1;
                match process_connected(&mut cx, buf_cap) { Some(s) => s, None => break }
            }
            gv::ImplState::PendingReconnect => {
                let wait = cx.call("advance_reconnect_period", |c| c.advance_reconnect_period());
                if wait.is_none() { break; }
                let mut result = None;
                for _ in 0..cx.r.below(3) {
                    cx.maybe_request(false);
                    if cx.dead { break; }
                    if let Some(s) = cx.client.compute_optional_state_transition() { result = Some(s); break; }
                }
                if cx.dead { break; }
                match result {
                    Some(s) => s,
                    None => {
                        if connections + cx.attempts > 14 && cx.want == Want::Running {
                            // enough reconnecting: ask the client to stop so that the history ends
                            cx.requests_left += 1;
                            cx.note("request stop (history end)".into());
                            cx.stops_requested_effective += 1;
                            cx.want = Want::Stopped;
                            cx.call("stop", |c| c.stop(None));
                            match cx.client.compute_optional_state_transition() { Some(s) => s, None => gv::ImplState::Connecting }
                        } else {
                            gv::ImplState::Connecting
                        }
                    }
                }
            }
            gv::ImplState::Shutdown => { break; }
        };
        if cx.dead { break; }
        cx.note(format!("transition {:?} -> {:?}", state, next));
        cx.l.count("c12.transitions");
        let res = cx.call("transition_to_state", |c| c.transition_to_state(next));
        match res {
            None => break,
            Some(Err(e)) => {
                loop_alive = false;
                if cx.want != Want::Closed {
                    let from = format!("{:?}", state);
                    let stopdisc = cx.stop_with_disconnect_pending;
                    cx.viol("C12.R3-event-loop-died", &[("from", from), ("to", format!("{:?}", next)), ("error", error_kind(&e)), ("stop_with_disconnect_pending", stopdisc.to_string())], format!("transition_to_state({:?}) returned {} while the client was not closed: the driver loops exit on this", next, e));
                }
            }
            Some(Ok(())) => {
                if next == gv::ImplState::Shutdown || cx.client.current_state() == gv::ImplState::Shutdown { loop_alive = false; cx.shutdown_seen = true; }
            }
        }
    }

    if cx.dead { return; }
    // end-of-history rules (the loop is quiescent: no request left, no transition offered)
    let final_state = cx.client.current_state();
    if iterations >= max_iterations { cx.l.count("c12.histories_cut_by_iteration_cap"); return; }
    cx.l.count("c12.histories_completed");
    if loop_alive && cx.want == Want::Stopped && cx.stops_requested_effective > 0 {
        cx.l.count("c12.stop_rule_evaluated");
        if final_state == gv::ImplState::Connected && cx.client.protocol_state() == gv::EngineState::PendingConnack {
            // The stop arrived during the CONNECT/CONNACK handshake and the server is silent. The
            // handshake is bounded by the establishment deadline the engine has armed (too far away to
            // wait for here when it is the 30 s default); an implementation may let the handshake end
            // before it stops. Not judged - the histories with a 3 ms deadline do reach the verdict.
            cx.l.count("c12.stop_waiting_for_handshake_deadline_not_judged");
        } else if final_state != gv::ImplState::Stopped || cx.last_lifecycle != Some("Stopped") {
            let swd = cx.stop_with_disconnect_pending;
            let ps = format!("{:?}", cx.client.protocol_state());
            cx.viol("C12.R4-stop-did-not-stop", &[("final_state", format!("{:?}", final_state)), ("stop_with_disconnect", swd.to_string()), ("protocol_state", ps)], format!("the last request was stop, the transport has nothing more to deliver, but the client is in {:?} and the last lifecycle event is {:?}", final_state, cx.last_lifecycle));
        }
    }
    if cx.stopped_events > cx.stops_requested_effective {
        let (a, b) = (cx.stopped_events, cx.stops_requested_effective);
        cx.viol("C12.R5-extra-stopped-event", &[], format!("{} Stopped events for {} effective stop requests", a, b));
    }
    if cx.want == Want::Closed && loop_alive && cx.requests_left == 0 {
        cx.viol("C12.R6-close-not-terminal", &[("final_state", format!("{:?}", final_state))], "close was requested but the loop did not reach Shutdown".into());
    }
    if cx.events_after_shutdown > 0 {
        cx.viol("C12.R7-event-after-close", &[], "lifecycle events after the client shut down".into());
    }
    if cx.lang == Lang::AwaitOutcome && !loop_alive && cx.want != Want::Closed {
        cx.viol("C12.R1-event-stream-malformed", &[("state", "AwaitOutcome-at-end".into()), ("event", "none".into())], "an attempt never received an outcome".into());
    }
    let h = crate::rng::fnv(cx.log.join("|").as_bytes());
    cx.l.nontrivial(h);
    if cx.l.samples.len() < 3 && !cx.violated && cx.log.len() > 12 { let lg = cx.log.clone(); let si = cx.seed_info.clone(); cx.l.sample(json!({"case": si, "log": lg})); }
}

/// The connected phase of the driver loop.  Returns the next state, or None when the history is
/// quiescent (nothing can happen any more).
fn process_connected(cx: &mut Ctx, buf_cap: usize) -> Option<gv::ImplState> {
    let v5 = cx.v5;
    let mode = match cx.r.below(8) { 0 => ServerMode::FailingConnack, 1 => ServerMode::Garbage, 2 => ServerMode::Silent, 3 => ServerMode::EofAfterConnect, _ => ServerMode::GoodConnack };
    cx.note(format!("connection: server mode {:?}", mode));
    let mut outbound: Vec<u8> = Vec::with_capacity(buf_cap);
    let mut written = 0usize;
    let mut decoder = rf::StreamDecoder::new(v5);
    decoder.compat = true;
    let mut to_client: Vec<u8> = Vec::new();
    // client-level C05: (end offset in the server stream, token) of every PUBLISH the server sent, the
    // offset at which a protocol-violating packet starts (if one was sent) and the bytes delivered so far
    let mut stream_len = 0usize;
    let mut publish_ends: Vec<(usize, u64)> = Vec::new();
    let mut bad_at: Option<usize> = None;
    let mut delivered = 0usize;
    let inbound_plan = if cx.c05_mode { cx.r.range(1, 8) as usize } else { cx.r.below(3) as usize };
    let bad_after = if cx.r.chance(1, 2) { Some(cx.r.below(inbound_plan as u64 + 1) as usize) } else { None };
    let surfaced_before = cx.surfaced.len();
    let mut eof = false;
    let mut idle = 0usize;
    let fault_at = if cx.r.chance(1, 3) { Some(cx.r.range(1, 60) as usize) } else { None };
    let write_fault_at = if cx.r.chance(1, 6) { Some(cx.r.range(1, 40) as usize) } else { None };
    let mut it = 0usize;
    loop {
        it += 1;
        if it > 400 { return None; }
        let mut progressed = false;
        // 1. user operation
        let before = cx.requests_left;
        cx.maybe_request(false);
        if cx.dead { return None; }
        if cx.requests_left != before { progressed = true; }

        // 2. read
        if fault_at == Some(it) {
            cx.note("transport read error".into());
            if cx.client.protocol_state() == gv::EngineState::Connected { cx.call("apply_error", |c| c.apply_connection_closed_error("read failed")); } else { cx.call("apply_error", |c| c.apply_connection_establishment_failure("read failed")); }
            return Some(gv::ImplState::PendingReconnect);
        }
        if !to_client.is_empty() {
            let n = usize::min(to_client.len(), cx.r.range(1, 64) as usize);
            let chunk: Vec<u8> = to_client.drain(..n).collect();
            progressed = true;
            let res = cx.call("handle_incoming_bytes", |c| c.handle_incoming_bytes(&chunk))?;
            delivered += chunk.len();
            // after close() the engine has been reset and rejects all further data: nothing more is owed
            let judged = cx.want != Want::Closed && (res.is_ok() || bad_at.map(|b| delivered > b).unwrap_or(false));
            if judged && (res.is_err() || (to_client.is_empty() && !publish_ends.is_empty())) {
                // every PUBLISH completely delivered before the first protocol-violating packet must have
                // been surfaced to the listener exactly once by now
                let limit = match (bad_at, res.is_err()) { (Some(b), true) => usize::min(b, delivered), _ => delivered };
                let expected: Vec<u64> = publish_ends.iter().filter(|(end, _)| *end <= limit).map(|(_, t)| *t).collect();
                let got: Vec<u64> = cx.surfaced[surfaced_before..].to_vec();
                cx.l.add("c05.client_level_publishes_expected", expected.len());
                for t in &expected {
                    let n = got.iter().filter(|g| *g == t).count();
                    if n != 1 {
                        let failed = res.is_err();
                        let errtxt = res.as_ref().err().map(|e| format!("{}", e)).unwrap_or_default();
                        cx.note(format!("delivery result: {}", errtxt));
                        cx.viol("C05.C1-client-level-surface-count", &[("times", n.to_string()), ("delivery_failed_later_in_same_read", failed.to_string())], format!("inbound publish token {} was completely delivered before any failing packet but reached the listener {} times (expected tokens {:?}, surfaced {:?})", t, n, expected, got));
                        break;
                    }
                }
                if got.iter().zip(expected.iter()).any(|(a, b)| a != b) && got.len() <= expected.len() {
                    cx.viol("C05.C2-client-level-surface-order", &[], format!("surfaced {:?} but wire order is {:?}", got, expected));
                }
                publish_ends.retain(|(end, _)| *end > limit);
            }
            if let Err(e) = res {
                cx.note(format!("incoming bytes error {}", error_kind(&e)));
                cx.call("apply_error", |c| c.apply_error(e));
                return Some(gv::ImplState::PendingReconnect);
            }
        } else if eof {
            cx.note("transport EOF".into());
            if cx.client.protocol_state() == gv::EngineState::Connected { cx.call("apply_error", |c| c.apply_connection_closed_error("eof")); } else { cx.call("apply_error", |c| c.apply_connection_establishment_failure("eof")); }
            return Some(gv::ImplState::PendingReconnect);
        }

        // 3. service when due
        let due = cx.call("get_next_connected_service_time", |c| c.get_next_connected_service_time())?;
        if let Some(t) = due {
            if t <= Instant::now() {
                let before_len = outbound.len();
                let res = { let ob = &mut outbound; cx.call("handle_service", |c| c.handle_service(ob))? };
                if outbound.len() != before_len { progressed = true; }
                if let Err(e) = res {
                    cx.note(format!("service error {}", error_kind(&e)));
                    cx.call("apply_error", |c| c.apply_error(e));
                    return Some(gv::ImplState::PendingReconnect);
                }
            }
        }

        // 4. write
        if written < outbound.len() {
            if write_fault_at == Some(it) {
                cx.note("transport write error".into());
                if cx.client.protocol_state() == gv::EngineState::Connected { cx.call("apply_error", |c| c.apply_connection_closed_error("write failed")); } else { cx.call("apply_error", |c| c.apply_connection_establishment_failure("write failed")); }
                return Some(gv::ImplState::PendingReconnect);
            }
            if !cx.r.chance(1, 5) {
                let k = usize::min(outbound.len() - written, cx.r.range(1, 40) as usize);
                let bytes = outbound[written..written + k].to_vec();
                written += k;
                progressed = true;
                for f in decoder.feed(&bytes) {
                    match f.packet {
                        rf::Packet::Connect(_) => match mode {
                            ServerMode::GoodConnack => {
                                let k = rf::encode(&rf::Packet::Connack(rf::Connack::default()), v5, &rf::Knobs::default());
                                stream_len += k.len();
                                to_client.extend(k);
                                for i in 0..inbound_plan {
                                    if bad_after == Some(i) {
                                        bad_at = Some(stream_len);
                                        let b = rf::encode(&rf::Packet::Puback(rf::Ack { packet_id: 60000, ..Default::default() }), v5, &rf::Knobs::default());
                                        stream_len += b.len();
                                        to_client.extend(b);
                                    }
                                    let t = cx.next_token;
                                    cx.next_token += 1;
                                    let qos = cx.r.below(3) as u8;
                                    let extra = { let n = *cx.r.pick(&[0usize, 10, 200]); cx.r.bytes(n) };
                                    let p = rf::encode(&rf::Packet::Publish(rf::Publish { qos, packet_id: if qos > 0 { Some(100 + i as u16) } else { None }, topic: "in/y".into(), payload: crate::world::token_payload(t, &extra), ..Default::default() }), v5, &rf::Knobs::default());
                                    stream_len += p.len();
                                    to_client.extend(p);
                                    publish_ends.push((stream_len, t));
                                }
                            }
                            ServerMode::FailingConnack => to_client.extend(rf::encode(&rf::Packet::Connack(rf::Connack { reason: if v5 { 0x87 } else { 5 }, ..Default::default() }), v5, &rf::Knobs::default())),
                            ServerMode::Garbage => to_client.extend(vec![0xFF, 0x03, 1, 2, 3]),
                            ServerMode::Silent => {}
                            ServerMode::EofAfterConnect => { eof = true; }
                        },
                        rf::Packet::Publish(p) => {
                            if p.qos == 1 { to_client.extend(rf::encode(&rf::Packet::Puback(rf::Ack { packet_id: p.packet_id.unwrap_or(1), ..Default::default() }), v5, &rf::Knobs::default())); }
                            if p.qos == 2 { to_client.extend(rf::encode(&rf::Packet::Pubrec(rf::Ack { packet_id: p.packet_id.unwrap_or(1), ..Default::default() }), v5, &rf::Knobs::default())); }
                        }
                        rf::Packet::Pubrel(a) => to_client.extend(rf::encode(&rf::Packet::Pubcomp(rf::Ack { packet_id: a.packet_id, ..Default::default() }), v5, &rf::Knobs::default())),
                        rf::Packet::Pingreq => to_client.extend(vec![0xD0, 0]),
                        rf::Packet::Disconnect(_) => { eof = true; }
                        _ => {}
                    }
                }
                if written == outbound.len() {
                    outbound.clear();
                    written = 0;
                    let res = cx.call("handle_write_completion", |c| c.handle_write_completion())?;
                    if let Err(e) = res {
                        cx.note(format!("write completion result {}", error_kind(&e)));
                        cx.call("apply_error", |c| c.apply_error(e));
                        return Some(gv::ImplState::PendingReconnect);
                    }
                }
            }
        }

        // 5. state transition offered?
        if let Some(s) = cx.client.compute_optional_state_transition() { return Some(s); }

        // quiescence: nothing left that could make anything happen
        let nothing_pending = to_client.is_empty() && !eof && written == outbound.len() && cx.requests_left == 0 && fault_at.map(|f| f < it).unwrap_or(true);
        if nothing_pending && !progressed {
            // the establishment deadline is the only timer that can still fire; wait for it when it is near
            let due = cx.call("get_next_connected_service_time", |c| c.get_next_connected_service_time())?;
            match due {
                Some(t) if t <= Instant::now() + Duration::from_millis(20) => { std::thread::sleep(Duration::from_millis(1)); idle = 0; }
                _ => { idle += 1; if idle > 3 { return None; } }
            }
        } else {
            idle = 0;
        }
    }
}

pub fn run_c12(tier: &str, seed: u64) -> i32 {
    let quick = tier != "thorough";
    let plan = FuzzPlan {
        id: "C12", level: "exploration", cases: if quick { 20_000 } else { 600_000 },
        rule: "driver-environment simulator around the real client implementation: a transliteration of the shared driver loop (drain a user operation, read, service when due, write, write completion, compute_optional_state_transition, transition_to_state) with a seeded transport (refused / timed out / established; good / failing / garbage / silent CONNACK; EOF or error at any step; partial and stalled writes) and seeded start / stop / stop-with-DISCONNECT / close / publish requests at every point; the client event stream is judged by a regular-language monitor, loop death and stop-never-stops are judged at quiescence of the finite script; non-trivial = a history ran to quiescence; distinct = distinct request/transport/event logs".into(),
        assumptions: vec!["the simulator's loop is a faithful transliteration of process_stopped / process_connecting / process_connected / process_pending_reconnect of both drivers".into(), "wall-clock is used only to let the 3 ms establishment deadline pass; verdicts are on event order and quiescence".into()],
        gates: vec![("c12.histories_completed", if quick { 10_000 } else { 300_000 }), ("c12.stop_rule_evaluated", if quick { 2_000 } else { 60_000 }), ("c12.lifecycle_events", 20_000)],
        budget_s: if quick { 900 } else { 3000 },
    };
    let sim = cases_report(plan, tier, seed, move |idx, r, l| { run_history(r, l, idx, false); });
    let real = crate::realdrv::c12_real_driver_report(tier, seed);
    sim.merge(real, "client_impl_simulator", "real_threaded_client").finish()
}

/* ---------------------------------------------------------------------------------------- */
/* C19                                                                                        */
/* ---------------------------------------------------------------------------------------- */

fn norm(base: Duration, max: Duration) -> (Duration, Duration) {
    let (mut b, mut m) = (base, max);
    if b > m { std::mem::swap(&mut b, &mut m); }
    if m < Duration::from_secs(1) { m = Duration::from_secs(1); }
    (b, m)
}

fn expected_wait(base: Duration, max: Duration, k: u32) -> Duration {
    let mut v = base;
    for _ in 0..k {
        v = v.checked_mul(2).unwrap_or(Duration::MAX);
        if v >= max { return max; }
    }
    if v > max { max } else { v }
}

pub fn run_c19(tier: &str, seed: u64) -> i32 {
    let quick = tier != "thorough";
    let plan = FuzzPlan {
        id: "C19", level: "exploration", cases: if quick { 30_000 } else { 1_000_000 },
        rule: "back-off step sequences from the real client implementation for generated base / max / stability periods (zero, sub-millisecond, base>max, max<1s, years, Duration::MAX) and both jitter modes, compared with min(base'*2^k, max') in closed form; plus lifetime histories driven through the real state transitions with each connection lifetime bracketed by the harness' own clock readings (decisive only when the bracket lies entirely on one side of the stability period); non-trivial = a wait was compared; distinct = distinct (configuration, history) pairs".into(),
        assumptions: vec!["the client implementation reads Instant::now(); lifetimes are bracketed, samples whose bracket straddles the stability period are skipped and counted".into()],
        gates: vec![("c19.waits_compared", if quick { 100_000 } else { 3_000_000 }), ("c19.resets_decisive", if quick { 200 } else { 5_000 }), ("c19.continuations_decisive", if quick { 200 } else { 5_000 }), ("c19.pre_connack_failures", if quick { 200 } else { 5_000 })],
        budget_s: if quick { 900 } else { 3000 },
    };
    run_cases(plan, tier, seed, move |idx, r, l| {
        let durations = [Duration::ZERO, Duration::from_nanos(1), Duration::from_micros(300), Duration::from_millis(1), Duration::from_millis(10), Duration::from_millis(999), Duration::from_secs(1), Duration::from_secs(2), Duration::from_secs(10), Duration::from_secs(120), Duration::from_secs(86400 * 365 * 5), Duration::from_secs(u64::MAX / 4), Duration::MAX];
        let base = *r.pick(&durations);
        let max = *r.pick(&durations);
        let uniform = r.chance(1, 2);
        let lifetime_case = idx % 8 == 0;
        let stability = if lifetime_case { *r.pick(&[Duration::ZERO, Duration::from_millis(30), Duration::from_secs(3600)]) } else { *r.pick(&durations) };
        let mut cb = MqttClientOptions::builder();
        cb.with_base_reconnect_period(base);
        cb.with_max_reconnect_period(max);
        cb.with_reconnect_stability_reset_period(stability);
        cb.with_reconnect_period_jitter(if uniform { ExponentialBackoffJitterType::Uniform } else { ExponentialBackoffJitterType::None });
        cb.with_connect_timeout(Duration::from_secs(30));
        let mut cs = ConnectSpec::default();
        cs.client_id = Some("b".into());
        let cfg = json!({"base_ns": base.as_nanos().to_string(), "max_ns": max.as_nanos().to_string(), "stability_ns": stability.as_nanos().to_string(), "jitter": if uniform { "uniform" } else { "none" }});
        let replay = json!({"kind": "backoff", "config": cfg, "index": idx});
        let class = |d: Duration| -> &'static str { if d == Duration::ZERO { "zero" } else if d == Duration::MAX { "max" } else if d < Duration::from_millis(1) { "sub-ms" } else if d > Duration::from_secs(86400 * 365) { "years" } else { "ordinary" } };
        let mut client = match catch_unwind(AssertUnwindSafe(|| gv::ClientImpl::new(cb.build(), build_connect_options(&cs)))) {
            Ok(c) => c,
            Err(_) => { let (m, loc) = take_panic(); let (m, f) = panic_signature(&m, &loc); l.violation("C19.R3-panic", &[("where", "construction".into()), ("panic_message", m), ("panic_file", f)], format!("client construction panicked at {}", loc), replay); return; }
        };
        let (nb, nm) = norm(base, max);
        let mut k: u32 = 0;
        let steps = if lifetime_case { 0 } else { r.range(3, 40) };
        l.nontrivial(crate::rng::fnv(format!("{:?}|{}", cfg, lifetime_case).as_bytes()));
        let mut check_wait = |client: &mut gv::ClientImpl, k: &mut u32, l: &mut Local| -> bool {
            let res = catch_unwind(AssertUnwindSafe(|| client.advance_reconnect_period()));
            let wait = match res {
                Ok(w) => w,
                Err(_) => {
                    let (m, loc) = take_panic();
                    let (m, f) = panic_signature(&m, &loc);
                    l.violation("C19.R3-panic", &[("where", "advance_reconnect_period".into()), ("panic_message", m), ("panic_file", f), ("base", class(base).into()), ("jitter", if uniform { "uniform".into() } else { "none".to_string() })], format!("computing the wait panicked at {} (config {})", loc, cfg), replay.clone());
                    return false;
                }
            };
            let exp = expected_wait(nb, nm, *k);
            l.count("c19.waits_compared");
            if uniform {
                if wait > exp {
                    l.violation("C19.R2-jittered-wait-above-bound", &[("base_gt_max", (base > max).to_string())], format!("wait {:?} for attempt {} exceeds min(base*2^k, max) = {:?} (config {})", wait, k, exp, cfg), replay.clone());
                    return false;
                }
            } else if wait != exp {
                l.violation("C19.R1-wait-differs-from-closed-form", &[("base_gt_max", (base > max).to_string()), ("k_is_zero", (*k == 0).to_string())], format!("wait {:?} for attempt {} but min(base'*2^k, max') = {:?} with base' {:?} max' {:?} (config {})", wait, k, exp, nb, nm, cfg), replay.clone());
                return false;
            }
            if wait > nm {
                l.violation("C19.R4-wait-above-effective-maximum", &[], format!("wait {:?} above the effective maximum {:?}", wait, nm), replay.clone());
                return false;
            }
            *k += 1;
            true
        };
        for _ in 0..steps {
            if !check_wait(&mut client, &mut k, l) { return; }
        }
        if !lifetime_case { if l.samples.len() < 2 { l.sample(json!({"config": cfg, "normalised_base_ns": nb.as_nanos().to_string(), "normalised_max_ns": nm.as_nanos().to_string(), "waits_checked": steps})); } return; }

        // lifetime histories: outcomes through the real state machine
        let connack = rf::encode(&rf::Packet::Connack(rf::Connack::default()), true, &rf::Knobs::default());
        let rounds = r.range(3, 8);
        let mut ok = catch_unwind(AssertUnwindSafe(|| { client.start(); })).is_ok();
        let mut hist = Vec::new();
        for _ in 0..rounds {
            if !ok { break; }
            // Stopped/PendingReconnect -> Connecting
            ok &= matches!(catch_unwind(AssertUnwindSafe(|| client.transition_to_state(gv::ImplState::Connecting))), Ok(Ok(())));
            if !ok { break; }
            let success = r.chance(2, 3);
            if !success {
                hist.push("failed-attempt".to_string());
                client.apply_connection_establishment_failure("refused");
                ok &= matches!(catch_unwind(AssertUnwindSafe(|| client.transition_to_state(gv::ImplState::PendingReconnect))), Ok(Ok(())));
                if !ok { break; }
                if !check_wait(&mut client, &mut k, l) { return; }
                continue;
            }
            ok &= matches!(catch_unwind(AssertUnwindSafe(|| client.transition_to_state(gv::ImplState::Connected))), Ok(Ok(())));
            if !ok { break; }
            let mut buf: Vec<u8> = Vec::with_capacity(4096);
            let _ = catch_unwind(AssertUnwindSafe(|| client.handle_service(&mut buf)));
            let _ = catch_unwind(AssertUnwindSafe(|| client.handle_write_completion()));
            if r.chance(1, 4) {
                // the transport was established but the attempt dies before a successful CONNACK
                // (EOF / error, or a failing CONNACK): no connection was established, so whatever
                // time passes the sequence must continue
                let failing = r.chance(1, 2);
                if failing {
                    let bad = rf::encode(&rf::Packet::Connack(rf::Connack { reason: 0x87, ..Default::default() }), true, &rf::Knobs::default());
                    let _ = catch_unwind(AssertUnwindSafe(|| client.handle_incoming_bytes(&bad)));
                }
                if r.chance(1, 2) { std::thread::sleep(Duration::from_millis(60)); }
                client.apply_connection_closed_error("lost before connack");
                let r2 = catch_unwind(AssertUnwindSafe(|| client.transition_to_state(gv::ImplState::PendingReconnect)));
                if !matches!(r2, Ok(Ok(()))) { break; }
                l.count("c19.pre_connack_failures");
                hist.push(format!("transport-up-no-connack(failing_connack={})", failing));
                if !check_wait(&mut client, &mut k, l) { return; }
                continue;
            }
            let t0 = Instant::now();
            let r1 = catch_unwind(AssertUnwindSafe(|| client.handle_incoming_bytes(&connack)));
            let t1 = Instant::now();
            if !matches!(r1, Ok(Ok(()))) { break; }
            let long = r.chance(1, 2);
            if long { std::thread::sleep(Duration::from_millis(60)); }
            client.apply_connection_closed_error("lost");
            let t2 = Instant::now();
            let r2 = catch_unwind(AssertUnwindSafe(|| client.transition_to_state(gv::ImplState::PendingReconnect)));
            let t3 = Instant::now();
            if !matches!(r2, Ok(Ok(()))) { break; }
            let lower = t2.saturating_duration_since(t1);
            let upper = t3.saturating_duration_since(t0);
            if upper <= stability {
                l.count("c19.continuations_decisive");
                hist.push(format!("connected<=stability({:?})", upper));
            } else if lower > stability {
                l.count("c19.resets_decisive");
                hist.push(format!("connected>stability({:?})", lower));
                k = 0;
            } else {
                l.count("c19.lifetimes_skipped_straddling");
                return;
            }
            if !check_wait(&mut client, &mut k, l) { return; }
        }
        let _ = client.take_events();
        if l.samples.len() < 3 { l.sample(json!({"config": cfg, "history": hist})); }
    })
}


/// C05 at the level of the client implementation: what a listener sees versus what the server sent
pub fn c05_client_level_report(tier: &str, seed: u64) -> crate::report::Report {
    let quick = tier != "thorough";
    let plan = FuzzPlan {
        id: "C05", level: "exploration", cases: if quick { 20_000 } else { 600_000 },
        rule: "the same driver-environment simulator as C12, judged on inbound traffic: after a successful CONNACK the scripted server sends 1..8 PUBLISH packets (QoS 0/1/2, unique tokens), in half of the connections with a protocol-violating packet placed somewhere in between, delivered in random fragments; every PUBLISH completely delivered before the violating packet must reach the client's listener exactly once and in wire order".into(),
        assumptions: vec!["sessions are never resumed in this family (QoS2 de-duplication across sessions is judged on the engine)".into()],
        gates: vec![("c05.client_level_publishes_expected", if quick { 10_000 } else { 300_000 })],
        budget_s: if quick { 600 } else { 3000 },
    };
    cases_report(plan, tier, seed, move |idx, r, l| { run_history(r, l, idx, true); })
}
