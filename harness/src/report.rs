//! Verdict plumbing shared by all checks: known-finding matching, replay files, evidence files,
//! the VIOLATION / KNOWN-FINDING / INCONCLUSIVE lines and the exit code.

use serde_json::{json, Map, Value};
use std::collections::BTreeMap;

pub fn verif_dir() -> String { std::env::var("VERIF_HOME").unwrap_or_else(|_| "/verif".to_string()) }

#[derive(Clone, Debug)]
pub struct Found {
    pub rule: String,
    pub signature: BTreeMap<String, String>,
    pub detail: String,
    /// everything needed to re-execute the witness
    pub replay: Value,
    pub occurrences: usize,
}

pub struct Report {
    pub property: String,
    pub tier: String,
    pub seed: u64,
    pub level: String,
    pub evaluations: usize,
    pub distinct_nontrivial: usize,
    pub rule: String,
    pub samples: Vec<Value>,
    pub extra: Map<String, Value>,
    pub assumptions: Vec<String>,
    pub found: Vec<Found>,
    pub inconclusive: Vec<String>,
    pub wall_s: f64,
}

fn load_known() -> Vec<Value> {
    let path = format!("{}/known_findings.json", verif_dir());
    match std::fs::read_to_string(&path) {
        Ok(s) => match serde_json::from_str::<Value>(&s) {
            Ok(v) => v["findings"].as_array().cloned().unwrap_or_default(),
            Err(_) => Vec::new(),
        },
        Err(_) => Vec::new(),
    }
}

fn matches_known(k: &Value, property: &str, f: &Found) -> bool {
    if k["property"].as_str() != Some(property) { return false; }
    if k["rule"].as_str() != Some(f.rule.as_str()) { return false; }
    if let Some(sigobj) = k["signature"].as_object() {
        for (key, val) in sigobj {
            let have = f.signature.get(key);
            match (have, val.as_str()) {
                (Some(h), Some(w)) if h == w => {}
                _ => return false,
            }
        }
    }
    true
}

fn short_hash(s: &str) -> String {
    format!("{:016x}", crate::rng::fnv(s.as_bytes()))
}

impl Report {
    pub fn new(property: &str, tier: &str, seed: u64, level: &str) -> Report {
        Report {
            property: property.to_string(), tier: tier.to_string(), seed, level: level.to_string(), evaluations: 0, distinct_nontrivial: 0, rule: String::new(),
            samples: Vec::new(), extra: Map::new(), assumptions: Vec::new(), found: Vec::new(), inconclusive: Vec::new(), wall_s: 0.0,
        }
    }

    pub fn add_found(&mut self, rule: &str, signature: BTreeMap<String, String>, detail: String, replay: Value) {
        for f in self.found.iter_mut() {
            if f.rule == rule && f.signature == signature { f.occurrences += 1; return; }
        }
        self.found.push(Found { rule: rule.to_string(), signature, detail, replay, occurrences: 1 });
    }

    /// Combines two partial reports for the same property (e.g. input-space fuzz + engine simulation)
    pub fn merge(mut self, other: Report, label_self: &str, label_other: &str) -> Report {
        self.evaluations += other.evaluations;
        self.distinct_nontrivial += other.distinct_nontrivial;
        self.rule = format!("[{}] {} || [{}] {}", label_self, self.rule, label_other, other.rule);
        for s in other.samples { if self.samples.len() < 6 { self.samples.push(s); } }
        let mine = std::mem::take(&mut self.extra);
        self.extra.insert(label_self.to_string(), Value::Object(mine));
        self.extra.insert(label_other.to_string(), Value::Object(other.extra));
        for a in other.assumptions { if !self.assumptions.contains(&a) { self.assumptions.push(a); } }
        for f in other.found {
            let occ = f.occurrences;
            self.add_found(&f.rule, f.signature, f.detail, f.replay);
            if let Some(last) = self.found.iter_mut().last() { if last.occurrences < occ { last.occurrences = occ; } }
        }
        self.inconclusive.extend(other.inconclusive);
        self.wall_s += other.wall_s;
        self
    }

    /// Writes evidence and replay files, prints the verdict lines, returns the process exit code.
    pub fn finish(mut self) -> i32 {
        let known = load_known();
        // VERIF_EVIDENCE_DIR: used by the seeded-change runner so that runs against a deliberately
        // broken tree do not overwrite the evidence of the real tree
        let evidence_dir = std::env::var("VERIF_EVIDENCE_DIR").unwrap_or_else(|_| format!("{}/evidence", verif_dir()));
        let replay_dir = format!("{}/replays", evidence_dir);
        let _ = std::fs::create_dir_all(&replay_dir);

        let mut known_hits: BTreeMap<String, usize> = BTreeMap::new();
        let mut new_violations: Vec<(String, &Found)> = Vec::new();
        for f in &self.found {
            let mut suppressed = false;
            for k in &known {
                if matches_known(k, &self.property, f) {
                    let what = k["what"].as_str().unwrap_or("").to_string();
                    *known_hits.entry(what).or_insert(0) += f.occurrences;
                    suppressed = true;
                    break;
                }
            }
            if !suppressed {
                let key = format!("{}|{:?}", f.rule, f.signature);
                let path = format!("{}/{}-{}.json", replay_dir, self.property, short_hash(&key));
                let doc = json!({"property": self.property, "rule": f.rule, "signature": f.signature, "detail": f.detail, "occurrences": f.occurrences, "tier": self.tier, "seed": self.seed, "replay": f.replay});
                let _ = std::fs::write(&path, serde_json::to_string_pretty(&doc).unwrap_or_default());
                new_violations.push((path, f));
            }
        }

        let verdict = if !new_violations.is_empty() { "violated" } else if !self.inconclusive.is_empty() { "inconclusive" } else { "held-on-what-was-observed" };

        let mut coverage = Map::new();
        coverage.insert("evaluations".into(), json!(self.evaluations));
        coverage.insert("distinct_nontrivial".into(), json!(self.distinct_nontrivial));
        coverage.insert("rule".into(), json!(self.rule));
        if self.samples.is_empty() { self.samples.push(json!("no sample recorded")); }
        coverage.insert("samples".into(), Value::Array(self.samples.clone()));
        for (k, v) in &self.extra { coverage.insert(k.clone(), v.clone()); }
        coverage.insert("verdict".into(), json!(verdict));
        coverage.insert("known_findings_observed".into(), json!(known_hits));
        coverage.insert("new_violations".into(), Value::Array(new_violations.iter().map(|(p, f)| json!({"rule": f.rule, "signature": f.signature, "detail": f.detail, "occurrences": f.occurrences, "replay": p})).collect()));
        coverage.insert("inconclusive_reasons".into(), json!(self.inconclusive));
        let evidence = json!({
            "property_id": self.property,
            "tier": self.tier,
            "seed": self.seed,
            "level": self.level,
            "coverage": Value::Object(coverage),
            "assumptions": self.assumptions,
            "wall_s": (self.wall_s * 1000.0).round() / 1000.0,
            "violations": new_violations.len(),
        });
        let _ = std::fs::create_dir_all(&evidence_dir);
        let path = format!("{}/{}.json", evidence_dir, self.property);
        if let Err(e) = std::fs::write(&path, serde_json::to_string_pretty(&evidence).unwrap_or_default()) {
            println!("INCONCLUSIVE property={} reason=cannot-write-evidence:{}", self.property, e);
            return 3;
        }

        for (what, n) in &known_hits {
            println!("KNOWN-FINDING: property={} {} (observed {} times)", self.property, what, n);
        }
        println!("SUMMARY property={} tier={} seed={} evaluations={} distinct_nontrivial={} verdict={} wall_s={:.1}", self.property, self.tier, self.seed, self.evaluations, self.distinct_nontrivial, verdict, self.wall_s);
        if !new_violations.is_empty() {
            for (p, f) in &new_violations {
                println!("VIOLATION property={} replay={}", self.property, p);
                println!("  rule={} signature={:?} occurrences={}", f.rule, f.signature, f.occurrences);
                println!("  {}", f.detail);
            }
            return 1;
        }
        if !self.inconclusive.is_empty() {
            for r in &self.inconclusive {
                println!("INCONCLUSIVE property={} reason={}", self.property, r);
            }
            return 3;
        }
        0
    }
}
