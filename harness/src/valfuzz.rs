//! C16 (input space): the real validation functions against the independent spec validator.

use crate::codecfuzz::*;
use crate::expect::*;
use crate::fuzz::*;
use crate::refmqtt as rf;
use crate::rng::Rng;
use crate::runner::*;
use crate::specval::*;
use gneiss_mqtt::alias::OutboundAliasResolution;
use gneiss_mqtt::client::config::ProtocolMode;
use gneiss_mqtt::client::NegotiatedSettings;
use gneiss_mqtt::verif as gv;
use serde_json::json;
use std::panic::{catch_unwind, AssertUnwindSafe};

fn token_filter(r: &mut Rng) -> String {
    // filters over the grammar's token alphabet {/, +, #, $share, name, empty}
    let n = r.range(1, 5);
    let mut parts: Vec<String> = Vec::new();
    for _ in 0..n {
        parts.push(match r.below(8) {
            0 => "+".into(),
            1 => "#".into(),
            2 => "$share".into(),
            3 => String::new(),
            4 => "a+".into(),
            5 => "b#".into(),
            _ => format!("n{}", r.below(5)),
        });
    }
    parts.join("/")
}

fn token_topic(r: &mut Rng) -> String {
    let n = r.range(1, 4);
    let mut parts: Vec<String> = Vec::new();
    for _ in 0..n {
        parts.push(match r.below(10) { 0 => "+".into(), 1 => "#".into(), 2 => String::new(), 3 => "$sys".into(), _ => format!("t{}", r.below(5)) });
    }
    parts.join("/")
}

fn len_around_limit(r: &mut Rng) -> usize {
    *r.pick(&[0usize, 1, 10, 65534, 65535, 65536, 65537, 70000])
}

fn gen_publish(r: &mut Rng) -> PublishSpec {
    let pl = r.below(50) as usize + 1;
    let mut p = PublishSpec { topic: token_topic(r), qos: r.below(3) as u8, retain: r.chance(1, 3), payload: Some(r.bytes(pl)), ..Default::default() };
    if r.chance(1, 10) { let n = len_around_limit(r); p.topic = gen_string(r, n).replace('+', "p").replace('#', "h"); }
    if r.chance(1, 6) { p.response_topic = Some(token_topic(r)); }
    if r.chance(1, 12) { let n = len_around_limit(r); p.response_topic = Some(gen_string(r, n).replace('+', "p").replace('#', "h")); }
    if r.chance(1, 8) { let n = len_around_limit(r); p.correlation_data = Some(r.bytes(n)); }
    if r.chance(1, 8) { let n = len_around_limit(r); p.content_type = Some(gen_string(r, n)); }
    if r.chance(1, 6) {
        let a = if r.chance(1, 2) { len_around_limit(r) } else { 3 };
        let b = if r.chance(1, 2) { len_around_limit(r) } else { 3 };
        p.user_props = vec![(gen_string(r, a), gen_string(r, b))];
    }
    if r.chance(1, 8) { p.topic_alias = Some(*r.pick(&[0u16, 1, 5, 65535])); }
    if r.chance(1, 10) { let n = *r.pick(&[0usize, 100, 1000, 70000]); p.payload = Some(r.bytes(n)); }
    p
}

fn gen_subscribe(r: &mut Rng) -> SubscribeSpec {
    let n = *r.pick(&[0usize, 1, 1, 2, 3]);
    let mut subs = Vec::new();
    for _ in 0..n {
        let mut s = rf::Subscription { filter: token_filter(r), qos: r.below(3) as u8, no_local: r.chance(1, 3), retain_as_published: r.chance(1, 3), retain_handling: r.below(3) as u8 };
        if r.chance(1, 12) { let n = len_around_limit(r); s.filter = gen_string(r, n).replace('+', "p").replace('#', "h"); }
        subs.push(s);
    }
    let mut spec = SubscribeSpec { subs, ..Default::default() };
    if r.chance(1, 2) { spec.subscription_id = Some(*r.pick(&[0u32, 1, 127, 128, 268_435_455, 268_435_456, u32::MAX])); }
    if r.chance(1, 8) { let a = len_around_limit(r); let b = len_around_limit(r); spec.user_props = vec![(gen_string(r, a), gen_string(r, b))]; }
    spec
}

fn gen_unsubscribe(r: &mut Rng) -> UnsubscribeSpec {
    let n = *r.pick(&[0usize, 1, 1, 2, 3]);
    let mut filters: Vec<String> = (0..n).map(|_| token_filter(r)).collect();
    if n > 0 && r.chance(1, 12) { let l = len_around_limit(r); filters[0] = gen_string(r, l).replace('+', "p").replace('#', "h"); }
    let mut spec = UnsubscribeSpec { filters, ..Default::default() };
    if r.chance(1, 8) { let a = len_around_limit(r); let b = len_around_limit(r); spec.user_props = vec![(gen_string(r, a), gen_string(r, b))]; }
    spec
}

fn settings_from(caps: &Caps) -> NegotiatedSettings {
    NegotiatedSettings {
        maximum_qos: qos_of(caps.maximum_qos),
        session_expiry_interval: 0,
        receive_maximum_from_server: 65535,
        maximum_packet_size_to_server: caps.maximum_packet_size,
        topic_alias_maximum_to_server: caps.topic_alias_maximum,
        server_keep_alive: 60,
        retain_available: caps.retain_available,
        wildcard_subscriptions_available: caps.wildcard_available,
        subscription_identifiers_available: caps.subscription_ids_available,
        shared_subscriptions_available: caps.shared_available,
        rejoined_session: false,
        client_id: "c".into(),
    }
}

fn gen_caps(r: &mut Rng, around: usize) -> Caps {
    let mut c = Caps::default();
    c.maximum_qos = *r.pick(&[0u8, 1, 2, 2]);
    c.retain_available = r.chance(2, 3);
    c.wildcard_available = r.chance(2, 3);
    c.shared_available = r.chance(2, 3);
    c.subscription_ids_available = r.chance(2, 3);
    c.maximum_packet_size = match r.below(4) {
        0 => (around as u32).saturating_sub(1).max(1),
        1 => around as u32,
        2 => around as u32 + 1,
        _ => 268_435_455,
    };
    c
}

pub fn c16_valfuzz_report(tier: &str, seed: u64) -> crate::report::Report {
    let quick = tier != "thorough";
    let plan = FuzzPlan {
        id: "C16", level: "exploration", cases: if quick { 60_000 } else { 2_000_000 },
        rule: "generated PUBLISH / SUBSCRIBE / UNSUBSCRIBE / DISCONNECT / connect options with every field at, below and above its limit and topics / filters over the token alphabet {/,+,#,$share,name,empty}; an independent tri-state validator says must-accept / must-reject(rule) / unspecified; static rules are compared with the submission-time validation, connection limits (maximum packet size measured on the real encoding, maximum QoS, retain / wildcard / shared / subscription-identifier availability) with the send-time validation; non-trivial = a must-accept or must-reject verdict was compared; distinct = distinct (kind, verdict, rule, capability vector)".into(),
        assumptions: vec!["validator written from the OASIS MQTT 5.0 text".into(), "malformed $share forms and U+0000 are unspecified and never judged".into()],
        gates: vec![("c16.static_compared", if quick { 30_000 } else { 900_000 }), ("c16.limits_compared", if quick { 8_000 } else { 250_000 })],
        budget_s: if quick { 600 } else { 3000 },
    };
    cases_report(plan, tier, seed, move |_idx, r, l| {
        let none = OutboundAliasResolution { skip_topic: false, alias: None };
        let which = r.below(10);
        let (kind, verdict, out_packet, exp, label): (&str, Verdict, gv::OutboundPacket, rf::Packet, serde_json::Value) = match which {
            0 | 1 | 2 | 3 => {
                let p = gen_publish(r);
                let mut e = expected_publish(&p, true);
                e.packet_id = if p.qos > 0 { Some(7) } else { None };
                ("publish", static_publish(&p), gv::OutboundPacket::Publish { packet: build_publish(&p), packet_id: 0, duplicate: false, topic_alias: p.topic_alias }, rf::Packet::Publish(e), json!({"topic": if p.topic.len() > 80 { format!("<{} bytes>", p.topic.len()) } else { p.topic.clone() }, "qos": p.qos, "retain": p.retain, "alias": p.topic_alias}))
            }
            4 | 5 | 6 => {
                let s = gen_subscribe(r);
                let mut e = expected_subscribe(&s, true);
                e.packet_id = 7;
                ("subscribe", static_subscribe(&s), gv::OutboundPacket::Subscribe { packet: build_subscribe(&s), packet_id: 0 }, rf::Packet::Subscribe(e), json!({"filters": s.subs.iter().map(|x| if x.filter.len() > 80 { format!("<{} bytes>", x.filter.len()) } else { x.filter.clone() }).collect::<Vec<_>>(), "no_local": s.subs.iter().map(|x| x.no_local).collect::<Vec<_>>(), "subscription_id": s.subscription_id}))
            }
            7 | 8 => {
                let u = gen_unsubscribe(r);
                let mut e = expected_unsubscribe(&u, true);
                e.packet_id = 7;
                ("unsubscribe", static_unsubscribe(&u), gv::OutboundPacket::Unsubscribe { packet: build_unsubscribe(&u), packet_id: 0 }, rf::Packet::Unsubscribe(e), json!({"filters": u.filters.iter().map(|x| if x.len() > 80 { format!("<{} bytes>", x.len()) } else { x.clone() }).collect::<Vec<_>>()}))
            }
            _ => {
                let mut d = gen_disconnect_spec(r, true, false);
                if r.chance(1, 4) { let n = len_around_limit(r); d.reason_string = Some(gen_string(r, n)); }
                if r.chance(1, 4) { let a = len_around_limit(r); let b = len_around_limit(r); d.user_props = vec![(gen_string(r, a), gen_string(r, b))]; }
                let e = expected_disconnect(&d, true);
                ("disconnect", static_disconnect(&d), gv::OutboundPacket::Disconnect(build_disconnect(&d)), rf::Packet::Disconnect(e), json!({"reason": d.reason, "reason_string_len": d.reason_string.as_ref().map(|s| s.len())}))
            }
        };

        // static rules vs submission-time validation
        let res = catch_unwind(AssertUnwindSafe(|| gv::validate_outbound(&out_packet)));
        let replay = json!({"kind": "validate", "packet": kind, "input": label});
        let actual_ok = match res {
            Err(_) => { let (m, loc) = take_panic(); let (m, f) = panic_signature(&m, &loc); l.violation("C16.V0-validation-panic", &[("panic_message", m), ("panic_file", f)], format!("validate_outbound panicked at {}", loc), replay.clone()); return; }
            Ok(Ok(())) => true,
            Ok(Err(_)) => false,
        };
        match &verdict {
            Verdict::MustReject(rule) => {
                l.count("c16.static_compared");
                l.nontrivial(crate::rng::fnv(format!("{}|reject|{}", kind, rule).as_bytes()));
                if actual_ok {
                    l.violation("C16.V1-static-rule-not-enforced", &[("packet", kind.into()), ("rule", rule.to_string())], format!("{} violating {} passes the submission-time validation: {}", kind, rule, label), replay.clone());
                }
                return;
            }
            Verdict::Unspecified(u) => { *l.unspecified.entry(u.to_string()).or_insert(0) += 1; return; }
            Verdict::MustAccept => {
                l.count("c16.static_compared");
                if !actual_ok {
                    l.violation("C16.V2-valid-packet-rejected-at-submission", &[("packet", kind.into())], format!("{} satisfies every static rule but was rejected: {}", kind, label), replay.clone());
                    return;
                }
            }
        }
        if kind == "disconnect" { return; }

        // connection limits vs send-time validation (measured on the real encoding)
        let with_id = match &out_packet {
            gv::OutboundPacket::Publish { packet, topic_alias, .. } => gv::OutboundPacket::Publish { packet: packet.clone(), packet_id: if let rf::Packet::Publish(e) = &exp { e.packet_id.unwrap_or(0) } else { 0 }, duplicate: false, topic_alias: *topic_alias },
            gv::OutboundPacket::Subscribe { packet, .. } => gv::OutboundPacket::Subscribe { packet: packet.clone(), packet_id: 7 },
            gv::OutboundPacket::Unsubscribe { packet, .. } => gv::OutboundPacket::Unsubscribe { packet: packet.clone(), packet_id: 7 },
            other => other.clone(),
        };
        let encoded = match catch_unwind(AssertUnwindSafe(|| gv::encode(&with_id, ProtocolMode::Mqtt5, none, &[1 << 21]))) { Ok(Ok(b)) => b, _ => return };
        let caps = gen_caps(r, encoded.len());
        let limit_verdict = wire_against_caps(&exp, encoded.len(), &caps, true);
        let settings = settings_from(&caps);
        let connect_options = build_connect_options(&ConnectSpec::default());
        let res2 = catch_unwind(AssertUnwindSafe(|| gv::validate_outbound_internal(&with_id, &settings, &connect_options, Some(none))));
        let replay2 = json!({"kind": "validate-internal", "packet": kind, "input": label, "encoded_len": encoded.len(), "caps": format!("{:?}", caps)});
        let ok2 = match res2 {
            Err(_) => { let (m, loc) = take_panic(); let (m, f) = panic_signature(&m, &loc); l.violation("C16.V0-validation-panic", &[("panic_message", m), ("panic_file", f)], format!("validate_outbound_internal panicked at {}", loc), replay2); return; }
            Ok(Ok(())) => true,
            Ok(Err(_)) => false,
        };
        match limit_verdict {
            Verdict::MustReject(rule) => {
                l.count("c16.limits_compared");
                l.nontrivial(crate::rng::fnv(format!("{}|limit|{}|{:?}", kind, rule, (caps.maximum_qos, caps.retain_available, caps.wildcard_available, caps.shared_available, caps.subscription_ids_available)).as_bytes()));
                if ok2 {
                    l.violation("C16.V3-connection-limit-not-enforced", &[("packet", kind.into()), ("limit", rule.to_string())], format!("{} violating {} passes the send-time validation ({} bytes, caps {:?})", kind, rule, encoded.len(), caps), replay2);
                }
            }
            Verdict::MustAccept => {
                l.count("c16.limits_compared");
                l.nontrivial(crate::rng::fnv(format!("{}|accept|{:?}", kind, (caps.maximum_qos, caps.retain_available, caps.wildcard_available, caps.shared_available, caps.subscription_ids_available, caps.maximum_packet_size == encoded.len() as u32)).as_bytes()));
                if !ok2 {
                    l.violation("C16.V4-valid-packet-rejected-at-send-time", &[("packet", kind.into()), ("at_size_limit", (caps.maximum_packet_size == encoded.len() as u32).to_string())], format!("{} satisfies all announced limits ({} bytes, caps {:?}) but failed the send-time validation: {}", kind, encoded.len(), caps, label), replay2);
                }
            }
            Verdict::Unspecified(u) => { *l.unspecified.entry(u.to_string()).or_insert(0) += 1; }
        }
        if l.samples.len() < 3 { l.sample(json!({"packet": kind, "input": label, "encoded_len": encoded.len(), "caps": format!("{:?}", caps)})); }

        // connect options: oversize fields must not be transmitted with a truncated length prefix
        if r.chance(1, 20) {
            let mut c = ConnectSpec::default();
            let field = *r.pick(&["client_id", "username", "password", "will_payload", "will_topic", "user_property"]);
            let n = *r.pick(&[65535usize, 65536, 70000]);
            match field {
                "client_id" => c.client_id = Some(gen_string(r, n)),
                "username" => c.username = Some(gen_string(r, n)),
                "password" => { c.username = Some("u".into()); c.password = Some(r.bytes(n)); }
                "will_payload" => c.will = Some(PublishSpec { topic: "w".into(), qos: 0, payload: Some(r.bytes(n)), ..Default::default() }),
                "will_topic" => c.will = Some(PublishSpec { topic: gen_string(r, n).replace('+', "p").replace('#', "h"), qos: 0, payload: Some(vec![1]), ..Default::default() }),
                _ => c.user_props = vec![("k".into(), gen_string(r, n))],
            }
            let over = n > 65535;
            let exp_c = rf::Packet::Connect(expected_connect(&c, true, true, c.client_id.as_deref().unwrap_or("")));
            // what the client actually transmits: open a connection on the real engine with these
            // options and collect everything it emits until it has nothing more to do
            let mut spec = EngineSpec::default();
            spec.connect = c.clone();
            spec.v5 = true;
            let emitted: Option<(Vec<u8>, bool)> = catch_unwind(AssertUnwindSafe(|| {
                let mut runner = Runner::new(spec, 1 << 21);
                let open = runner.apply(Event::Open { deadline_ms: 30_000 });
                let refused = open.result.is_err();
                let mut bytes = Vec::new();
                for _ in 0..4 {
                    let rec = runner.apply(Event::Service);
                    bytes.extend_from_slice(&rec.emitted);
                    if rec.emitted.is_empty() { break; }
                }
                (bytes, refused)
            })).ok();
            if let Some((bytes, refused)) = emitted {
                l.count("c16.connect_fields_checked");
                let decoded = rf::decode_all(&bytes, true);
                let faithful = matches!(&decoded, Ok(ps) if ps.len() == 1 && ps[0] == exp_c);
                if over {
                    if refused && bytes.is_empty() { l.count("c16.oversize_connect_refused_locally"); }
                    else if !faithful {
                        l.violation("C16.V5-oversize-connect-field-transmitted", &[("field", field.into())], format!("connect option {} of {} bytes: the engine transmitted {} bytes of CONNECT that do not carry it (16-bit length prefix truncated)", field, n, bytes.len()), json!({"kind": "connect-field", "field": field, "len": n}));
                    }
                } else if !faithful {
                    l.violation("C16.V6-connect-field-at-limit-corrupted", &[("field", field.into()), ("refused", refused.to_string())], format!("connect option {} of {} bytes (legal) not recovered from the CONNECT the engine transmitted ({} bytes, refused at open: {})", field, n, bytes.len(), refused), json!({"kind": "connect-field", "field": field, "len": n}));
                }
            } else { let _ = take_panic(); l.violation("C16.V0-validation-panic", &[("where", "connect-options".into())], format!("opening a connection with a {}-byte {} panicked", n, field), json!({"kind": "connect-field", "field": field, "len": n})); }
        }
    })
}

pub fn run_c16(tier: &str, seed: u64) -> i32 {
    let val = c16_valfuzz_report(tier, seed);
    match crate::check::engine_report("C16", tier, seed, if tier == "thorough" { 3000 } else { 600 }) {
        Some(engine) => val.merge(engine, "validation_fuzz", "engine_wire").finish(),
        None => val.finish(),
    }
}
