//! Discrete-event simulator around the real engine: seeded workload, reference broker, driver
//! disciplines, fault injection.  Produces step records which the world model and the monitors
//! consume online.

use crate::broker::*;
use crate::monitors::*;
use crate::refmqtt as rf;
use crate::rng::Rng;
use crate::runner::*;
use crate::world::*;
use gneiss_mqtt::verif::EngineState;
use serde_json::{json, Value};

#[derive(Clone, Copy, Debug, PartialEq, Eq)]
pub enum Discipline {
    /// what the real drivers do: service only when the reported time is <= now
    TimerOnly,
    /// additionally service after every event delivered to the engine
    Contract,
    /// any order a driver could produce, plus probes after errors
    Chaos,
}

#[derive(Clone, Debug)]
pub struct SimProfile {
    pub discipline: Discipline,
    /// perform the C08.R1 audit (an extra service whenever the engine reports "nothing to do now")
    pub audit: bool,
    /// advance the clock only when nothing is due, and exactly to the next due instant
    pub prompt: bool,
    pub n_ops: usize,
    /// weights: qos0, qos1, qos2, subscribe, unsubscribe
    pub op_weights: [u64; 5],
    pub op_gap_max_ms: u64,
    pub payload_extra_max: usize,
    pub big_payload_pct: u64,
    pub user_props_max: usize,
    pub ack_timeout_choices: Vec<Option<u64>>,
    pub topics: Vec<String>,
    pub manual_alias: bool,
    /// fraction (permille) of steps at which a random transport failure is injected
    pub close_permille: u64,
    /// forced transport failure at exactly these step indices (fault enumeration)
    pub forced_close_steps: Vec<usize>,
    pub max_conns: usize,
    pub reconnect_delay_max_ms: u64,
    /// maximum bytes accepted per write (0 = everything)
    pub write_chunk_max: usize,
    pub write_stall_pct: u64,
    pub flush_error_pct: u64,
    pub deliver_chunk_max: usize,
    pub connect_timeout_ms: u64,
    pub stop_permille: u64,
    pub stop_while_ping_outstanding_pct: u64,
    /// share of publishes sent with a present-but-empty payload (the operation is then identified by a
    /// unique topic instead of the tag in the payload)
    pub empty_payload_pct: u64,
    pub stop_with_props: bool,
    pub mid_reset_permille: u64,
    pub max_steps: usize,
    /// virtual-time horizon after which an idle connection is considered quiescent
    pub horizon_ms: u64,
    /// percent of submissions made invalid on purpose (C16 static rules)
    pub invalid_op_pct: u64,
    /// subscription identifiers on subscribes
    pub sub_id_pct: u64,
    pub retain_pct: u64,
    pub wildcard_pct: u64,
    pub shared_pct: u64,
    /// idle time to spend after the workload is done (keep-alive exploration)
    pub idle_tail_ms: u64,
    /// random extra clock advances (ms) even when work is due (only when !prompt)
    pub jitter_max_ms: u64,
    /// percent of operations submitted with an ack timeout of Duration::MAX
    pub ack_timeout_max_pct: u64,
}

impl Default for SimProfile {
    fn default() -> Self {
        SimProfile {
            discipline: Discipline::Contract, audit: false, prompt: true, n_ops: 10, op_weights: [2, 3, 3, 1, 1], op_gap_max_ms: 20, payload_extra_max: 40,
            big_payload_pct: 5, user_props_max: 2, ack_timeout_choices: vec![None], topics: vec!["a/b".into(), "a/c".into(), "d".into(), "e/f/g".into(), "hh/i".into()],
            manual_alias: false, close_permille: 0, forced_close_steps: vec![], max_conns: 4, reconnect_delay_max_ms: 50, write_chunk_max: 0, write_stall_pct: 0,
            flush_error_pct: 0, deliver_chunk_max: 0, connect_timeout_ms: 30_000, stop_permille: 0, stop_while_ping_outstanding_pct: 0, empty_payload_pct: 0, stop_with_props: false, mid_reset_permille: 0, max_steps: 5000,
            horizon_ms: 4_000_000, invalid_op_pct: 0, sub_id_pct: 0, retain_pct: 10, wildcard_pct: 20, shared_pct: 0, idle_tail_ms: 0, jitter_max_ms: 0, ack_timeout_max_pct: 0,
        }
    }
}

#[derive(Clone, Debug)]
pub struct Case {
    pub seed: u64,
    pub engine: EngineSpec,
    pub broker: BrokerProfile,
    pub sim: SimProfile,
    pub buf_capacity: usize,
    /// replay: (honest, responsive, keepalive_mode) as they were in the original run
    pub force_flags: Option<(bool, bool, bool)>,
}

pub struct RunResult {
    pub world: World,
    pub violations: Vec<Violation>,
    pub events: Vec<Event>,
    pub steps: usize,
    pub quiescent: bool,
    pub stats: RunStats,
    pub broker_stats: BrokerStats,
    pub kind_hash: u64,
    pub close_positions: Vec<String>,
    pub final_snapshot: Option<gneiss_mqtt::verif::Snapshot>,
    pub counters: std::collections::BTreeMap<&'static str, usize>,
    pub flags: (bool, bool, bool),
    pub stronger_slow_start_hits: usize,
    pub poisoned: bool,
}

#[derive(Default, Debug, Clone)]
pub struct RunStats {
    pub events_by_kind: [usize; 11],
    pub state_event_pairs: std::collections::HashSet<(u8, u8)>,
    pub errors_by_kind: std::collections::HashMap<String, usize>,
    pub audits: usize,
}

fn state_code(s: EngineState) -> u8 {
    match s { EngineState::Disconnected => 0, EngineState::PendingConnack => 1, EngineState::Connected => 2, EngineState::PendingDisconnect => 3, EngineState::Halted => 4 }
}

pub struct OpGen {
    rng: Rng,
    next_tag: u64,
}

impl OpGen {
    pub fn new(seed: u64) -> OpGen { OpGen { rng: Rng::new(seed), next_tag: 1 } }

    fn user_props(&mut self, max: usize) -> Vec<(String, String)> {
        let n = self.rng.below(max as u64 + 1) as usize;
        (0..n).map(|i| (format!("k{}", i), format!("v{}", self.rng.below(100)))).collect()
    }

    pub fn next(&mut self, p: &SimProfile, v5: bool) -> OpSpec {
        let tag = self.next_tag;
        self.next_tag += 1;
        let w = p.op_weights;
        let total: u64 = w.iter().sum();
        let mut r = self.rng.below(total.max(1));
        let mut which = 0;
        for (i, x) in w.iter().enumerate() {
            if r < *x { which = i; break; }
            r -= x;
        }
        let ack_timeout_ms = self.rng.pick(&p.ack_timeout_choices).clone();
        let body = match which {
            0 | 1 | 2 => {
                let extra_len = if self.rng.chance(p.big_payload_pct, 100) { self.rng.range(3000, 12000) as usize } else { self.rng.below(p.payload_extra_max as u64 + 1) as usize };
                let extra = self.rng.bytes(extra_len);
                let topic = self.rng.pick(&p.topics).clone();
                let mut spec = PublishSpec { topic, qos: which as u8, payload: Some(tagged_payload(tag, &extra)), ..Default::default() };
                if self.rng.chance(p.retain_pct, 100) { spec.retain = true; }
                if p.empty_payload_pct > 0 && self.rng.chance(p.empty_payload_pct, 100) {
                    // e.g. clearing a retained message: payload present but empty
                    spec.payload = Some(Vec::new());
                    spec.topic = crate::world::tagged_filter(tag, "e");
                }
                if v5 {
                    spec.user_props = self.user_props(p.user_props_max);
                    if self.rng.chance(1, 6) { spec.content_type = Some("text/plain".into()); }
                    if self.rng.chance(1, 6) { spec.response_topic = Some("resp/t".into()); }
                    if self.rng.chance(1, 6) { spec.correlation_data = Some(self.rng.bytes(5)); }
                    if self.rng.chance(1, 6) { spec.message_expiry = Some(self.rng.below(1000) as u32); }
                    if self.rng.chance(1, 8) { spec.payload_format = Some(0); }
                }
                if p.manual_alias && self.rng.chance(2, 3) {
                    // a stable topic → alias assignment plus occasional rebinding / out of range values
                    let idx = p.topics.iter().position(|t| *t == spec.topic).unwrap_or(0) as u16;
                    let alias = if self.rng.chance(1, 8) { self.rng.range(1, 12) as u16 } else { idx + 1 };
                    spec.topic_alias = Some(alias);
                }
                if self.rng.chance(p.invalid_op_pct, 100) {
                    match self.rng.below(3) {
                        0 => spec.topic = "bad/+/topic".into(),
                        1 => spec.topic = String::new(),
                        _ => spec.response_topic = Some("r/#".into()),
                    }
                }
                OpBody::Publish(spec)
            }
            3 => {
                let n = self.rng.range(1, 3) as usize;
                let mut subs = Vec::new();
                for i in 0..n {
                    let suffix = if self.rng.chance(p.wildcard_pct, 100) { if self.rng.chance(1, 2) { format!("s{}/#", i) } else { format!("+/s{}", i) } } else { format!("s{}", i) };
                    let mut filter = tagged_filter(tag, &suffix);
                    if i > 0 && self.rng.chance(p.shared_pct, 100) { filter = format!("$share/g{}/{}", i, filter); }
                    let mut s = rf::Subscription { filter, qos: self.rng.below(3) as u8, ..Default::default() };
                    if v5 {
                        s.no_local = self.rng.chance(1, 5) && !s.filter.starts_with("$share");
                        s.retain_as_published = self.rng.chance(1, 5);
                        s.retain_handling = self.rng.below(3) as u8;
                    }
                    subs.push(s);
                }
                let mut spec = SubscribeSpec { subs, ..Default::default() };
                if v5 {
                    spec.user_props = self.user_props(p.user_props_max);
                    if self.rng.chance(p.sub_id_pct, 100) { spec.subscription_id = Some(self.rng.range(1, 300000) as u32); }
                }
                if self.rng.chance(p.invalid_op_pct, 100) {
                    match self.rng.below(2) {
                        0 => spec.subs.clear(),
                        _ => spec.subs[0].filter = format!("{}/#/x", tagged_filter(tag, "z")),
                    }
                }
                OpBody::Subscribe(spec)
            }
            _ => {
                let n = self.rng.range(1, 3) as usize;
                let filters = (0..n).map(|i| tagged_filter(tag, &format!("u{}", i))).collect();
                let mut spec = UnsubscribeSpec { filters, ..Default::default() };
                if v5 { spec.user_props = self.user_props(p.user_props_max); }
                if self.rng.chance(p.invalid_op_pct, 100) { spec.filters.clear(); }
                OpBody::Unsubscribe(spec)
            }
        };
        let ack_timeout_max = self.rng.chance(p.ack_timeout_max_pct, 100);
        OpSpec { tag, body, ack_timeout_ms, ack_timeout_max }
    }
}

/// describes where unresolved work sat when a connection closed (evidence + signatures)
pub fn close_position(world: &World, snap: &gneiss_mqtt::verif::Snapshot, pending_emitted: usize, pending_first_byte: Option<u8>, unwritten: usize) -> String {
    let mut parts = Vec::new();
    if let Some(cur) = &snap.current_operation {
        let what = match pending_first_byte.map(|b| b >> 4) {
            Some(6) => "pubrel".to_string(),
            Some(3) => "publish".to_string(),
            Some(8) => "subscribe".to_string(),
            Some(10) => "unsubscribe".to_string(),
            Some(1) => "connect".to_string(),
            Some(14) => "disconnect".to_string(),
            Some(t) => format!("type{}", t),
            None => cur.packet_type.to_lowercase(),
        };
        let what = if cur.has_pubrel && pending_first_byte.is_none() { "pubrel".to_string() } else { what };
        parts.push(format!("{}-half-encoded", what));
        let _ = pending_emitted;
    }
    if unwritten > 0 { parts.push("encoded-unwritten".to_string()); }
    if snap.pending_publish > 0 { parts.push("publish-awaiting-ack".to_string()); }
    if snap.pending_non_publish > 0 { parts.push("subunsub-awaiting-ack".to_string()); }
    if snap.pending_write_completion_operations > 0 { parts.push("awaiting-write-completion".to_string()); }
    if snap.high_priority_queue > 0 { parts.push("high-priority-queued".to_string()); }
    if snap.resubmit_queue > 0 { parts.push("resubmit-queued".to_string()); }
    if snap.user_queue > 0 { parts.push("user-queued".to_string()); }
    let _ = world;
    if parts.is_empty() { "idle".to_string() } else { parts.join("+") }
}

pub struct Sim {
    pub case: Case,
    pub runner: Runner,
    pub world: World,
    pub broker: Broker,
    pub monitors: Monitors,
    pub events: Vec<Event>,
    wrng: Rng,
    frng: Rng,
    opgen: OpGen,
    ops_submitted: usize,
    next_op_at: u64,
    reconnect_at: u64,
    must_close: bool,
    pending_write_complete: bool,
    events_since_service: bool,
    stats: RunStats,
    kind_seq: Vec<u8>,
    close_positions: Vec<String>,
    stop_requested: bool,
    idle_until: Option<u64>,
    first_bytes_seen: bool,
}

impl Sim {
    pub fn new(case: Case) -> Sim {
        let runner = Runner::new(case.engine.clone(), case.buf_capacity);
        let world = World::new(case.engine.clone());
        let broker = Broker::new(case.broker.clone(), case.engine.v5, case.seed ^ 0xB0B0);
        let monitors = Monitors::new(&case);
        Sim {
            wrng: Rng::new(case.seed ^ 0x1111), frng: Rng::new(case.seed ^ 0xFA17), opgen: OpGen::new(case.seed ^ 0x0905),
            case, runner, world, broker, monitors, events: Vec::new(), ops_submitted: 0, next_op_at: 0, reconnect_at: 0, must_close: false,
            pending_write_complete: false, events_since_service: false, stats: RunStats::default(), kind_seq: Vec::new(), close_positions: Vec::new(),
            stop_requested: false, idle_until: None, first_bytes_seen: false,
        }
    }

    fn connected(&self) -> bool { self.runner.out_buf.is_some() }

    /// Apply one event: run it, update world, feed broker and monitors.
    pub fn step(&mut self, event: Event) -> StepRecord {
        // context the monitors need from before the event
        let pre_snapshot = match &event {
            Event::Close | Event::Reset => Some(self.runner.snapshot()),
            _ => None,
        };
        if let (Event::Close, Some(snap)) = (&event, &pre_snapshot) {
            let (pending, first) = self.world.conn().map(|c| (c.emitted_decoder.pending(), None::<u8>)).unwrap_or((0, None));
            let first = if pending > 0 { self.pending_first_byte() } else { first };
            let pos = close_position(&self.world, snap, pending, first, self.runner.unwritten());
            self.close_positions.push(pos);
        }
        self.events.push(event.clone());
        let rec = self.runner.apply(event);
        self.stats.events_by_kind[rec.event.kind_code() as usize] += 1;
        self.stats.state_event_pairs.insert((state_code(rec.state_before), rec.event.kind_code()));
        if let CallResult::Err(k, _) = &rec.result { *self.stats.errors_by_kind.entry(k.clone()).or_insert(0) += 1; }
        self.kind_seq.push(rec.event.kind_code());
        let delta = self.world.apply(&rec);

        // broker sees completely written packets
        match &rec.event {
            Event::Open { .. } => { self.broker.on_open(rec.time_ms); self.first_bytes_seen = false; }
            Event::Close => { self.broker.on_close(); self.pending_write_complete = false; self.must_close = false; }
            Event::Write(_) => {
                if !rec.written.is_empty() && !self.first_bytes_seen {
                    self.first_bytes_seen = true;
                    self.broker.on_first_bytes(rec.time_ms);
                }
                for (c, pi) in &delta.new_written {
                    let p = self.world.conns[*c].emitted[*pi].packet.clone();
                    self.broker.on_packet(rec.time_ms, &p);
                }
            }
            _ => {}
        }
        match &rec.event {
            Event::Service => { self.events_since_service = false; }
            Event::Submit(_) | Event::SubmitDisconnect(_) | Event::Deliver(_) | Event::WriteComplete | Event::Open { .. } => { self.events_since_service = true; }
            _ => {}
        }
        if rec.result.is_err() && self.connected() {
            self.must_close = true;
        }
        let post_snapshot = match &rec.event {
            Event::Reset => Some(self.runner.snapshot()),
            _ => None,
        };
        let settings_after = if delta.connack_accepted { self.runner.engine.negotiated_settings() } else { None };
        let ctx = StepContext { pre_snapshot: pre_snapshot.as_ref(), post_snapshot: post_snapshot.as_ref(), close_position: if matches!(rec.event, Event::Close) { self.close_positions.last().map(|s| s.as_str()) } else { None }, unwritten_after: self.runner.unwritten(), settings_after };
        self.monitors.on_step(&self.world, &rec, &delta, &ctx);
        rec
    }

    fn pending_first_byte(&self) -> Option<u8> {
        // first byte of the incomplete packet in the emitted stream = byte at offset total_consumed
        let c = self.world.conn()?;
        let consumed = c.emitted_decoder.total_consumed();
        // reconstruct from the driver buffer: the buffer holds the tail of the emitted stream
        let buf = self.runner.out_buf.as_ref()?;
        let buf_start = c.emitted_bytes.checked_sub(buf.len())?;
        if consumed >= buf_start && consumed - buf_start < buf.len() { Some(buf[consumed - buf_start]) } else { None }
    }

    fn do_service(&mut self) -> StepRecord {
        self.step(Event::Service)
    }

    /// C08.R1 audit: the engine says "nothing to do at `now`"; a service call must then do nothing.
    fn audit(&mut self) {
        if !self.case.sim.audit || !self.connected() || self.runner.poisoned { return; }
        if self.pending_write_complete || self.runner.unwritten() > 0 { return; }
        let st = self.runner.state();
        if !matches!(st, EngineState::PendingConnack | EngineState::Connected | EngineState::PendingDisconnect) { return; }
        let now = self.runner.now_ms;
        let t = { let n = self.runner.now(); self.runner.engine.next_service(n).map(|d| d.as_millis() as u64) };
        if t.map(|t| t > now).unwrap_or(true) {
            self.stats.audits += 1;
            self.monitors.audit_pending = Some(t);
            let rec = self.do_service();
            self.monitors.audit_pending = None;
            let _ = rec;
        }
    }

    pub fn run(mut self) -> RunResult {
        let p = self.case.sim.clone();
        let mut quiescent = false;
        let mut guard = 0usize;
        while self.runner.steps < p.max_steps && !self.runner.poisoned {
            guard += 1;
            if guard > p.max_steps * 4 { break; }
            let now = self.runner.now_ms;
            let step_index = self.runner.steps;

            // forced / random transport failure
            if self.connected() && (p.forced_close_steps.contains(&step_index) || (p.close_permille > 0 && self.frng.chance(p.close_permille, 1000))) {
                self.step(Event::Close);
                self.reconnect_at = self.runner.now_ms + self.wrng.range(0, p.reconnect_delay_max_ms);
                continue;
            }
            if self.must_close && self.connected() {
                // after an entry point error the drivers tear the connection down; the chaos driver
                // first probes that the engine stays halted
                if p.discipline == Discipline::Chaos && self.wrng.chance(1, 2) {
                    match self.wrng.below(3) {
                        0 => { self.do_service(); }
                        1 => { self.step(Event::Deliver(vec![0xD0, 0x00])); }
                        _ => { self.step(Event::WriteComplete); }
                    }
                }
                self.step(Event::Close);
                self.reconnect_at = self.runner.now_ms + self.wrng.range(0, p.reconnect_delay_max_ms);
                continue;
            }
            if self.pending_write_complete && self.connected() {
                self.pending_write_complete = false;
                if self.frng.chance(p.flush_error_pct, 100) {
                    self.step(Event::Close);
                    self.reconnect_at = self.runner.now_ms + self.wrng.range(0, p.reconnect_delay_max_ms);
                } else {
                    self.step(Event::WriteComplete);
                    self.audit();
                }
                continue;
            }
            if p.mid_reset_permille > 0 && self.frng.chance(p.mid_reset_permille, 1000) {
                if self.connected() { self.step(Event::Close); }
                self.step(Event::Reset);
                self.reconnect_at = self.runner.now_ms;
                continue;
            }

            // candidate actions
            let mut cands: Vec<u8> = Vec::new();
            // 1 submit, 2 open, 3 deliver, 4 write, 5 service, 6 stop
            let ops_left = self.ops_submitted < p.n_ops;
            if ops_left && self.next_op_at <= now { cands.push(1); }
            let can_open = !self.connected() && self.world.conns.len() < p.max_conns && !self.stop_requested;
            if can_open && self.reconnect_at <= now && self.runner.state() == EngineState::Disconnected { cands.push(2); }
            let broker_due = self.connected() && self.broker.next_due().map(|t| t <= now).unwrap_or(false);
            if broker_due { cands.push(3); }
            let unwritten = self.runner.unwritten();
            if self.connected() && unwritten > 0 { cands.push(4); }
            if self.connected() {
                let t = self.last_next_service();
                let due = t.map(|t| t <= now).unwrap_or(false);
                let enabled = match p.discipline {
                    Discipline::TimerOnly => due,
                    Discipline::Contract => due || self.events_since_service,
                    Discipline::Chaos => due || self.events_since_service || self.wrng.chance(1, 10),
                };
                if enabled { cands.push(5); }
            }
            if self.connected() && p.stop_permille > 0 && !self.stop_requested && self.wrng.chance(p.stop_permille, 1000) { cands.push(6); }
            // a user stop while the answer to a PINGREQ is still on its way (the DISCONNECT may then be
            // encoded before the PINGRESP arrives)
            else if self.connected() && p.stop_while_ping_outstanding_pct > 0 && !self.stop_requested && self.broker.pingresp_pending() && self.wrng.chance(p.stop_while_ping_outstanding_pct, 100) { cands.push(6); cands.push(6); }

            if cands.is_empty() || (!p.prompt && p.jitter_max_ms > 0 && self.wrng.chance(1, 6)) {
                // nothing to do now: advance time
                let mut targets: Vec<u64> = Vec::new();
                if ops_left { targets.push(self.next_op_at); }
                if can_open { targets.push(self.reconnect_at); }
                if self.connected() {
                    if let Some(t) = self.broker.next_due() { targets.push(t); }
                }
                let non_service_targets = targets.iter().any(|t| *t > now);
                if self.connected() {
                    if let Some(t) = self.last_next_service() {
                        if non_service_targets || self.idle_until.map(|u| t <= u).unwrap_or(false) { targets.push(t); }
                    }
                    if let Some(t) = self.idle_until { targets.push(t); }
                }
                let target = targets.into_iter().filter(|t| *t > now).min();
                if !cands.is_empty() {
                    let dt = self.wrng.range(1, p.jitter_max_ms);
                    self.step(Event::Advance(dt));
                    continue;
                }
                match target {
                    Some(t) if t - now <= p.horizon_ms => {
                        let mut dt = t - now;
                        if !p.prompt && p.jitter_max_ms > 0 { dt += self.wrng.below(p.jitter_max_ms); }
                        self.step(Event::Advance(dt));
                        self.audit();
                    }
                    _ => {
                        // quiescent
                        if !ops_left && p.idle_tail_ms > 0 && self.idle_until.is_none() && self.connected() {
                            self.idle_until = Some(now + p.idle_tail_ms);
                            continue;
                        }
                        quiescent = true;
                        if self.connected() && !self.runner.poisoned {
                            let snap = self.runner.snapshot();
                            let ns = self.last_next_service();
                            self.monitors.on_quiescence(&self.world, &snap, ns, now, self.stop_requested);
                        }
                        break;
                    }
                }
                continue;
            }

            let choice = *self.wrng.pick(&cands);
            match choice {
                1 => {
                    let op = self.opgen.next(&p, self.case.engine.v5);
                    self.ops_submitted += 1;
                    self.next_op_at = now + self.wrng.range(0, p.op_gap_max_ms);
                    self.step(Event::Submit(op));
                    self.audit();
                }
                2 => {
                    let deadline = now + p.connect_timeout_ms;
                    self.step(Event::Open { deadline_ms: deadline });
                }
                3 => {
                    let bytes = self.broker.poll(now);
                    if !bytes.is_empty() {
                        let max = if p.deliver_chunk_max == 0 { bytes.len() } else { p.deliver_chunk_max };
                        let mut off = 0;
                        while off < bytes.len() && self.connected() && !self.must_close && !self.runner.poisoned {
                            let n = usize::min(bytes.len() - off, self.wrng.range(1, max as u64) as usize);
                            self.step(Event::Deliver(bytes[off..off + n].to_vec()));
                            off += n;
                            if self.must_close { break; }
                            self.audit();
                            // the driver loop services between reads when due
                            if off < bytes.len() && self.connected() && !self.must_close {
                                let due = self.last_next_service().map(|t| t <= self.runner.now_ms).unwrap_or(false);
                                if due || (p.discipline != Discipline::TimerOnly && self.wrng.chance(1, 2)) { self.do_service(); }
                                if self.must_close { break; }
                                // and writes may interleave
                                if self.runner.unwritten() > 0 && self.wrng.chance(1, 2) { self.do_write(&p); if self.pending_write_complete { self.pending_write_complete = false; self.step(Event::WriteComplete); } }
                            }
                        }
                    }
                }
                4 => { self.do_write(&p); }
                5 => { self.do_service(); }
                6 => {
                    self.stop_requested = true;
                    let mut d = DisconnectSpec::default();
                    if p.stop_with_props && self.case.engine.v5 {
                        d.reason_string = Some("stopping".into());
                        d.user_props = vec![("bye".into(), "now".into())];
                        if self.wrng.chance(1, 3) { d.reason = 0x04; }
                    }
                    self.step(Event::SubmitDisconnect(d));
                }
                _ => {}
            }
        }

        // wind down: close the transport, reset the engine (client closed)
        if !self.runner.poisoned {
            if self.connected() { self.step(Event::Close); }
            self.step(Event::Reset);
        }
        let final_snapshot = if self.runner.poisoned { None } else { Some(self.runner.snapshot()) };
        self.monitors.on_end(&self.world, quiescent, final_snapshot.as_ref());
        let kind_hash = crate::rng::fnv(&self.kind_seq);
        RunResult {
            counters: std::mem::take(&mut self.monitors.counters), flags: self.monitors.flags(), stronger_slow_start_hits: self.monitors.stronger_slow_start_hits, poisoned: self.runner.poisoned,
            violations: std::mem::take(&mut self.monitors.violations), steps: self.runner.steps, quiescent, stats: self.stats, broker_stats: self.broker.stats.clone(),
            kind_hash, close_positions: self.close_positions, final_snapshot, events: self.events, world: self.world,
        }
    }

    fn last_next_service(&mut self) -> Option<u64> {
        let n = self.runner.now();
        if self.runner.poisoned { return None; }
        let engine = &mut self.runner.engine;
        match std::panic::catch_unwind(std::panic::AssertUnwindSafe(move || engine.next_service(n))) {
            Ok(v) => v.map(|d| d.as_millis() as u64),
            Err(_) => { let _ = take_panic(); None }
        }
    }

    fn do_write(&mut self, p: &SimProfile) {
        let unwritten = self.runner.unwritten();
        if unwritten == 0 { return; }
        if self.wrng.chance(p.write_stall_pct, 100) {
            // the transport accepts nothing right now; time passes
            self.step(Event::Advance(1));
            return;
        }
        let k = if p.write_chunk_max == 0 { unwritten } else { usize::min(unwritten, self.wrng.range(1, p.write_chunk_max as u64) as usize) };
        self.step(Event::Write(k));
        if self.runner.unwritten() == 0 {
            self.pending_write_complete = true;
        }
    }
}

/// Re-executes a recorded event list against the real engine and runs the monitors again.
pub fn replay(case: &Case, events: &[Event]) -> RunResult {
    let mut sim = Sim::new(case.clone());
    for e in events {
        if sim.runner.poisoned { break; }
        sim.step(e.clone());
    }
    let final_snapshot = if sim.runner.poisoned { None } else { Some(sim.runner.snapshot()) };
    sim.monitors.on_end(&sim.world, false, final_snapshot.as_ref());
    let kind_hash = crate::rng::fnv(&sim.kind_seq);
    RunResult {
        counters: std::mem::take(&mut sim.monitors.counters), flags: sim.monitors.flags(), stronger_slow_start_hits: sim.monitors.stronger_slow_start_hits, poisoned: sim.runner.poisoned,
        violations: std::mem::take(&mut sim.monitors.violations), steps: sim.runner.steps, quiescent: false, stats: sim.stats, broker_stats: sim.broker.stats.clone(),
        kind_hash, close_positions: sim.close_positions, final_snapshot, events: sim.events, world: sim.world,
    }
}

pub fn broker_profile_json(b: &BrokerProfile) -> Value {
    json!({"connack_fail_pct": b.connack_fail_pct, "connack_silent_pct": b.connack_silent_pct, "session_keep_pct": b.session_keep_pct, "random_caps": b.random_caps,
        "ack_delay_max_ms": b.ack_delay_max_ms, "ack_withhold_pct": b.ack_withhold_pct, "negative_pct": b.negative_pct, "inbound_count": b.inbound_count,
        "hostile_pct": b.hostile_pct, "garbage_pct": b.garbage_pct, "early_connack_pct": b.early_connack_pct, "honest": b.honest()})
}
