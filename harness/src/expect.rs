//! The logical content the application supplied, rendered in the reference model, restricted to
//! what the protocol version can express.

use crate::refmqtt as rf;
use crate::runner::*;

pub fn expected_publish(spec: &PublishSpec, v5: bool) -> rf::Publish {
    let mut p = rf::Publish {
        dup: false,
        qos: spec.qos,
        retain: spec.retain,
        topic: spec.topic.clone(),
        packet_id: None,
        payload: spec.payload.clone().unwrap_or_default(),
        ..Default::default()
    };
    if v5 {
        p.payload_format = spec.payload_format;
        p.message_expiry = spec.message_expiry;
        p.response_topic = spec.response_topic.clone();
        p.correlation_data = spec.correlation_data.clone();
        p.content_type = spec.content_type.clone();
        p.user_props = spec.user_props.clone();
    }
    p
}

pub fn expected_subscribe(spec: &SubscribeSpec, v5: bool) -> rf::Subscribe {
    let mut s = rf::Subscribe { packet_id: 0, subscription_id: None, user_props: vec![], subscriptions: vec![] };
    for sub in &spec.subs {
        let mut x = rf::Subscription { filter: sub.filter.clone(), qos: sub.qos, ..Default::default() };
        if v5 {
            x.no_local = sub.no_local;
            x.retain_as_published = sub.retain_as_published;
            x.retain_handling = sub.retain_handling;
        }
        s.subscriptions.push(x);
    }
    if v5 {
        s.subscription_id = spec.subscription_id;
        s.user_props = spec.user_props.clone();
    }
    s
}

pub fn expected_unsubscribe(spec: &UnsubscribeSpec, v5: bool) -> rf::Unsubscribe {
    rf::Unsubscribe { packet_id: 0, user_props: if v5 { spec.user_props.clone() } else { vec![] }, filters: spec.filters.clone() }
}

pub fn expected_disconnect(spec: &DisconnectSpec, v5: bool) -> rf::Disconnect {
    if v5 {
        rf::Disconnect { reason: spec.reason, session_expiry: spec.session_expiry, reason_string: spec.reason_string.clone(), user_props: spec.user_props.clone(), server_reference: None }
    } else {
        rf::Disconnect::default()
    }
}

pub fn expected_connect(spec: &ConnectSpec, v5: bool, clean_start: bool, client_id: &str) -> rf::Connect {
    let mut c = rf::Connect {
        clean_start,
        keep_alive: spec.keep_alive.unwrap_or(0),
        client_id: client_id.to_string(),
        username: spec.username.clone(),
        password: spec.password.clone(),
        ..Default::default()
    };
    if let Some(w) = &spec.will {
        let mut will = rf::Will { qos: w.qos, retain: w.retain, topic: w.topic.clone(), payload: w.payload.clone().unwrap_or_default(), ..Default::default() };
        if v5 {
            will.will_delay = spec.will_delay;
            will.payload_format = w.payload_format;
            will.message_expiry = w.message_expiry;
            will.content_type = w.content_type.clone();
            will.response_topic = w.response_topic.clone();
            will.correlation_data = w.correlation_data.clone();
            will.user_props = w.user_props.clone();
        }
        c.will = Some(will);
    }
    if v5 {
        c.session_expiry = spec.session_expiry;
        c.receive_maximum = spec.receive_maximum;
        c.maximum_packet_size = spec.maximum_packet_size;
        c.topic_alias_maximum = spec.topic_alias_maximum;
        c.request_response_information = spec.request_response_information.map(|b| b as u8);
        c.request_problem_information = spec.request_problem_information.map(|b| b as u8);
        c.user_props = spec.user_props.clone();
    }
    c
}

/// first differing field between two publishes, ignoring dup / packet id / topic / alias
pub fn publish_content_diff(a: &rf::Publish, b: &rf::Publish) -> Option<&'static str> {
    if a.qos != b.qos { return Some("qos"); }
    if a.retain != b.retain { return Some("retain"); }
    if a.payload != b.payload { return Some("payload"); }
    if a.payload_format != b.payload_format { return Some("payload_format"); }
    if a.message_expiry != b.message_expiry { return Some("message_expiry"); }
    if a.response_topic != b.response_topic { return Some("response_topic"); }
    if a.correlation_data != b.correlation_data { return Some("correlation_data"); }
    if a.subscription_ids != b.subscription_ids { return Some("subscription_ids"); }
    if a.content_type != b.content_type { return Some("content_type"); }
    if a.user_props != b.user_props { return Some("user_props"); }
    None
}
