//! SplitMix64 — the only source of randomness in the harness.

#[derive(Clone, Debug)]
pub struct Rng {
    state: u64,
}

impl Rng {
    pub fn new(seed: u64) -> Rng {
        Rng { state: seed.wrapping_add(0x9E3779B97F4A7C15) }
    }

    pub fn derive(seed: u64, a: u64, b: u64) -> Rng {
        let mut r = Rng::new(seed ^ a.wrapping_mul(0xD6E8FEB86659FD93) ^ b.wrapping_mul(0xA24BAED4963EE407));
        r.next_u64();
        r
    }

    pub fn next_u64(&mut self) -> u64 {
        self.state = self.state.wrapping_add(0x9E3779B97F4A7C15);
        let mut z = self.state;
        z = (z ^ (z >> 30)).wrapping_mul(0xBF58476D1CE4E5B9);
        z = (z ^ (z >> 27)).wrapping_mul(0x94D049BB133111EB);
        z ^ (z >> 31)
    }

    /// uniform in [0, n)
    pub fn below(&mut self, n: u64) -> u64 {
        if n == 0 { 0 } else { self.next_u64() % n }
    }

    pub fn range(&mut self, lo: u64, hi_inclusive: u64) -> u64 {
        lo + self.below(hi_inclusive - lo + 1)
    }

    pub fn chance(&mut self, num: u64, den: u64) -> bool {
        self.below(den) < num
    }

    pub fn pick<'a, T>(&mut self, items: &'a [T]) -> &'a T {
        &items[self.below(items.len() as u64) as usize]
    }

    pub fn bytes(&mut self, n: usize) -> Vec<u8> {
        let mut v = Vec::with_capacity(n);
        while v.len() < n {
            let x = self.next_u64().to_le_bytes();
            let take = usize::min(8, n - v.len());
            v.extend_from_slice(&x[..take]);
        }
        v
    }

    pub fn shuffle<T>(&mut self, items: &mut [T]) {
        for i in (1..items.len()).rev() {
            let j = self.below((i + 1) as u64) as usize;
            items.swap(i, j);
        }
    }
}

/// FNV-1a, used for hashing event-kind sequences into "distinct history" counters
pub fn fnv(data: &[u8]) -> u64 {
    let mut h: u64 = 0xcbf29ce484222325;
    for b in data {
        h ^= *b as u64;
        h = h.wrapping_mul(0x100000001b3);
    }
    h
}
