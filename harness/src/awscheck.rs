//! C20: the AWS IoT builder, observed through the verif accessors of gneiss-mqtt-aws.

use crate::fuzz::*;
use crate::rng::Rng;
use crate::runner::*;
use gneiss_mqtt::alias::OutboundAliasResolverFactory;
use gneiss_mqtt::client::config::*;
use gneiss_mqtt::verif as gv;
use gneiss_mqtt_aws::verif as gav;
use gneiss_mqtt_aws::{AwsClientBuilder, AwsCustomAuthOptions};
use serde_json::json;
use std::panic::{catch_unwind, AssertUnwindSafe};
use std::time::Duration;

const UNRESERVED: &[u8] = b"ABCDEFGHIJKLMNOPQRSTUVWXYZabcdefghijklmnopqrstuvwxyz0123456789-_.~";
const BASE64: &[u8] = b"ABCDEFGHIJKLMNOPQRSTUVWXYZabcdefghijklmnopqrstuvwxyz0123456789+/";

fn uri_safe(r: &mut Rng, min: usize, max: usize) -> String {
    let n = r.range(min as u64, max as u64) as usize;
    (0..n).map(|_| *r.pick(UNRESERVED) as char).collect()
}

fn base64ish(r: &mut Rng) -> String {
    let n = r.range(1, 30) as usize * 4;
    let mut s: String = (0..n).map(|_| *r.pick(BASE64) as char).collect();
    // force the interesting characters in
    if r.chance(2, 3) { s.insert(r.below(s.len() as u64) as usize, '+'); s.insert(r.below(s.len() as u64) as usize, '/'); }
    match r.below(3) { 0 => s.push('='), 1 => s.push_str("=="), _ => {} }
    s
}

/// own percent encoder (RFC 3986 unreserved set stays)
fn pct_encode(s: &str) -> String {
    let mut out = String::new();
    for b in s.bytes() {
        if UNRESERVED.contains(&b) { out.push(b as char); } else { out.push_str(&format!("%{:02X}", b)); }
    }
    out
}

fn pct_decode(s: &str) -> Option<String> {
    let b = s.as_bytes();
    let mut out = Vec::new();
    let mut i = 0;
    while i < b.len() {
        if b[i] == b'%' {
            if i + 2 >= b.len() { return None; }
            let h = std::str::from_utf8(&b[i + 1..i + 3]).ok()?;
            out.push(u8::from_str_radix(h, 16).ok()?);
            i += 3;
        } else {
            out.push(b[i]);
            i += 1;
        }
    }
    String::from_utf8(out).ok()
}

fn parse_query(q: &str) -> Option<Vec<(String, String)>> {
    if q.is_empty() { return Some(vec![]); }
    let mut out = Vec::new();
    for part in q.split('&') {
        let (k, v) = part.split_once('=')?;
        out.push((k.to_string(), v.to_string()));
    }
    Some(out)
}

fn gen_client_options(r: &mut Rng) -> (MqttClientOptions, serde_json::Value) {
    let mut b = MqttClientOptions::builder();
    let policy = r.below(4) as u8;
    b.with_offline_queue_policy(policy_of(policy));
    let ct = *r.pick(&[1u64, 30_000, 5_000]);
    b.with_connect_timeout(Duration::from_millis(ct));
    let pt = *r.pick(&[0u64, 10_000, 99]);
    b.with_ping_timeout(Duration::from_millis(pt));
    let resolver = r.chance(1, 3);
    if resolver { b.with_outbound_alias_resolver_factory(OutboundAliasResolverFactory::new_lru_factory(5)); }
    let jitter = r.chance(1, 2);
    b.with_reconnect_period_jitter(if jitter { ExponentialBackoffJitterType::Uniform } else { ExponentialBackoffJitterType::None });
    let base = *r.pick(&[1u64, 1000, 7000]);
    let max = *r.pick(&[2000u64, 120_000]);
    let stab = *r.pick(&[0u64, 30_000]);
    b.with_base_reconnect_period(Duration::from_millis(base));
    b.with_max_reconnect_period(Duration::from_millis(max));
    b.with_reconnect_stability_reset_period(Duration::from_millis(stab));
    let v311 = r.chance(1, 2);
    b.with_protocol_mode(if v311 { ProtocolMode::Mqtt311 } else { ProtocolMode::Mqtt5 });
    let drain = match r.below(3) { 0 => None, 1 => Some(PostReconnectQueueDrainPolicy::None), _ => Some(PostReconnectQueueDrainPolicy::OneAtATime) };
    if let Some(d) = drain { b.with_post_reconnect_queue_drain_policy(d); }
    let retries = *r.pick(&[None, None, Some(0u32), Some(7)]);
    if let Some(n) = retries { b.with_max_interrupted_retries(n); }
    let label = json!({"policy": policy, "connect_timeout_ms": ct, "ping_timeout_ms": pt, "resolver": resolver, "jitter_uniform": jitter, "base_ms": base, "max_ms": max, "stability_ms": stab, "mqtt311": v311, "drain": drain.map(|d| format!("{:?}", d)), "retries": retries});
    (b.build(), label)
}

pub fn run_c20(tier: &str, seed: u64) -> i32 {
    let quick = tier != "thorough";
    let plan = FuzzPlan {
        id: "C20", level: "exploration", cases: if quick { 40_000 } else { 1_000_000 },
        rule: "generated authorizer names, signatures (raw base64 with + / = or the same percent-encoded by the harness' own encoder), token keys / values, usernames, passwords, user connect options (every field, with and without client id) and client options; the options the AWS builder hands on (read through the verif accessor, computed by the builder's own private functions) are judged by an independent query-string splitter / percent-decoder and by field-by-field comparison with what the user supplied; non-trivial = the builder's output was judged; distinct = distinct (auth kind, signature form, client-id form, protocol mode, drain/retry presence) combinations x input hash".into(),
        assumptions: vec!["names, token keys/values and usernames are drawn from the URI-safe alphabet the builder documents; an explicitly empty client id is outside the documented input domain and is counted as unspecified".into()],
        gates: vec![("c20.custom_auth_judged", if quick { 10_000 } else { 300_000 }), ("c20.options_judged", if quick { 20_000 } else { 600_000 })],
        budget_s: if quick { 600 } else { 3000 },
    };
    run_cases(plan, tier, seed, move |_idx, r, l| {
        let auth_kind = r.below(3); // 0 mtls, 1 unsigned custom auth, 2 signed custom auth
        let authorizer = if r.chance(3, 4) { Some(uri_safe(r, 1, 20)) } else { None };
        let raw_sig = base64ish(r);
        let pre_encoded = r.chance(1, 2);
        let sig_input = if pre_encoded { pct_encode(&raw_sig) } else { raw_sig.clone() };
        let key = uri_safe(r, 1, 12);
        let value = uri_safe(r, 1, 24);
        let username = if r.chance(2, 3) { Some(uri_safe(r, 0, 16)) } else { None };
        let password = if r.chance(1, 2) { let n = r.below(20) as usize; Some(r.bytes(n)) } else { None };

        let mut cs = crate::codecfuzz::gen_connect_spec(r, true, false);
        cs.username = None;
        let cid_form = r.below(4);
        cs.client_id = match cid_form { 0 | 1 => None, 2 => Some(uri_safe(r, 1, 20)), _ => Some(String::new()) };
        let user_password = cs.password.clone();
        let user_connect = build_connect_options(&cs);
        let supply_connect = cid_form != 0 || r.chance(1, 2);
        let (client_options, client_label) = gen_client_options(r);
        let supply_client = r.chance(3, 4);

        let label = json!({"auth": auth_kind, "authorizer": authorizer, "signature_raw": raw_sig, "signature_pre_encoded": pre_encoded, "token_key": key, "token_value": value, "username": username, "password_len": password.as_ref().map(|p| p.len()), "client_id_form": cid_form, "supply_connect": supply_connect, "supply_client": supply_client, "client_options": client_label});
        let replay = json!({"kind": "aws-builder", "input": label});

        let built = catch_unwind(AssertUnwindSafe(|| {
            let mut builder = match auth_kind {
                0 => AwsClientBuilder::new_direct_with_mtls_from_memory("example.iot.us-east-1.amazonaws.com", b"cert", b"key", None).ok()?,
                1 => {
                    let mut b = AwsCustomAuthOptions::builder_unsigned(authorizer.as_deref());
                    if let Some(u) = &username { b.with_username(u); }
                    if let Some(p) = &password { b.with_password(p); }
                    AwsClientBuilder::new_direct_with_custom_auth("example.iot.us-east-1.amazonaws.com", b.build(), None).ok()?
                }
                _ => {
                    let mut b = AwsCustomAuthOptions::builder_signed(authorizer.as_deref(), &sig_input, &key, &value);
                    if let Some(u) = &username { b.with_username(u); }
                    if let Some(p) = &password { b.with_password(p); }
                    AwsClientBuilder::new_direct_with_custom_auth("example.iot.us-east-1.amazonaws.com", b.build(), None).ok()?
                }
            };
            if supply_connect { builder = builder.with_connect_options(user_connect.clone()); }
            if supply_client { builder = builder.with_client_options(client_options.clone()); }
            let first = gav::final_options(&builder);
            let second = gav::final_options(&builder);
            Some((first, second))
        }));
        let ((final_connect, final_client), (second_connect, _)) = match built {
            Err(_) => { let (m, loc) = take_panic(); let (m, f) = panic_signature(&m, &loc); l.violation("C20.R0-panic", &[("panic_message", m), ("panic_file", f)], format!("builder panicked at {}", loc), replay); return; }
            Ok(None) => { l.count("c20.builder_construction_failed"); return; }
            Ok(Some(x)) => x,
        };
        let fc = gv::view_connect_options(&final_connect);
        let sc = gv::view_connect_options(&second_connect);
        let uc = gv::view_connect_options(&if supply_connect { user_connect.clone() } else { ConnectOptions::builder().build() });
        l.count("c20.options_judged");
        l.nontrivial(crate::rng::fnv(format!("{}|{}|{}|{}|{}", auth_kind, pre_encoded, cid_form, client_label["mqtt311"], crate::rng::fnv(label.to_string().as_bytes()) % 64).as_bytes()));

        // client id
        let user_cid = if supply_connect { cs.client_id.clone() } else { None };
        match &user_cid {
            Some(c) if !c.is_empty() => {
                if fc.client_id.as_deref() != Some(c.as_str()) {
                    l.violation("C20.R1-user-client-id-not-kept", &[], format!("user client id {:?} became {:?}", c, fc.client_id), replay.clone());
                }
            }
            Some(_) => { *l.unspecified.entry("explicitly-empty-client-id".into()).or_insert(0) += 1; }
            None => {
                let a = fc.client_id.clone().unwrap_or_default();
                let b = sc.client_id.clone().unwrap_or_default();
                if a.is_empty() {
                    l.violation("C20.R2-empty-client-id", &[], "no client id supplied and none generated".into(), replay.clone());
                } else if a == b {
                    l.violation("C20.R3-generated-client-id-not-fresh", &[], format!("two builds produced the same generated client id {}", a), replay.clone());
                }
            }
        }

        // custom auth username / password
        if auth_kind > 0 {
            l.count("c20.custom_auth_judged");
            let fu = fc.username.clone().unwrap_or_default();
            let prefix = username.clone().unwrap_or_default();
            let expected_pairs: Vec<(String, String)> = {
                let mut v = Vec::new();
                if let Some(a) = &authorizer { v.push(("x-amz-customauthorizer-name".to_string(), a.clone())); }
                if auth_kind == 2 {
                    v.push(("x-amz-customauthorizer-signature".to_string(), raw_sig.clone()));
                    v.push((key.clone(), value.clone()));
                }
                v
            };
            match fu.strip_prefix(prefix.as_str()).and_then(|rest| rest.strip_prefix('?')) {
                None => {
                    l.violation("C20.R4-username-shape", &[], format!("final username {:?} is not the user's username {:?} followed by '?' and a query", fu, prefix), replay.clone());
                }
                Some(query) => match parse_query(query) {
                    None => { l.violation("C20.R5-query-malformed", &[], format!("query string {:?} is not a sequence of key=value pairs", query), replay.clone()); }
                    Some(pairs) => {
                        let decoded: Vec<(String, Option<String>)> = pairs.iter().map(|(k, v)| (k.clone(), pct_decode(v))).collect();
                        for (ek, ev) in &expected_pairs {
                            match decoded.iter().find(|(k, _)| k == ek) {
                                None => { l.violation("C20.R6-parameter-missing", &[("parameter", if ek.starts_with("x-amz") { ek.clone() } else { "token".to_string() })], format!("query {:?} lacks {}", query, ek), replay.clone()); }
                                Some((_, dv)) => {
                                    if dv.as_deref() != Some(ev.as_str()) {
                                        let which = if ek.ends_with("signature") { "signature" } else if ek.ends_with("name") { "authorizer-name" } else { "token" };
                                        l.violation("C20.R7-parameter-does-not-decode-to-configured-value", &[("parameter", which.into()), ("pre_encoded", pre_encoded.to_string())], format!("{} decodes to {:?}, configured {:?}", ek, dv, ev), replay.clone());
                                    }
                                }
                            }
                        }
                        if decoded.len() != expected_pairs.len() {
                            l.violation("C20.R8-unexpected-parameters", &[], format!("query {:?} has {} parameters, expected {}", query, decoded.len(), expected_pairs.len()), replay.clone());
                        }
                        if auth_kind == 2 {
                            if let Some((_, raw_v)) = pairs.iter().find(|(k, _)| k == "x-amz-customauthorizer-signature") {
                                if raw_v.contains('+') || raw_v.contains('/') || raw_v.contains('=') {
                                    l.violation("C20.R9-signature-not-percent-encoded", &[("pre_encoded", pre_encoded.to_string())], format!("signature parameter {:?} contains raw + / =", raw_v), replay.clone());
                                }
                            }
                        }
                    }
                },
            }
            let expected_password = password.clone().or(if supply_connect { user_password.clone() } else { None });
            if fc.password != expected_password {
                l.violation("C20.R10-password", &[("custom_auth_password", password.is_some().to_string())], format!("final password {:?} expected {:?}", fc.password.as_ref().map(|p| p.len()), expected_password.as_ref().map(|p| p.len())), replay.clone());
            }
        } else {
            if fc.username != uc.username || fc.password != uc.password {
                l.violation("C20.R11-credentials-changed-without-custom-auth", &[], "username / password differ from the user's although no custom authentication is configured".into(), replay.clone());
            }
        }

        // every other connect option preserved
        let mut diffs = Vec::new();
        if fc.keep_alive_interval_seconds != uc.keep_alive_interval_seconds { diffs.push("keep_alive"); }
        if fc.rejoin_session_policy != uc.rejoin_session_policy { diffs.push("rejoin_session_policy"); }
        if fc.session_expiry_interval_seconds != uc.session_expiry_interval_seconds { diffs.push("session_expiry"); }
        if fc.request_response_information != uc.request_response_information { diffs.push("request_response_information"); }
        if fc.request_problem_information != uc.request_problem_information { diffs.push("request_problem_information"); }
        if fc.receive_maximum != uc.receive_maximum { diffs.push("receive_maximum"); }
        if fc.topic_alias_maximum != uc.topic_alias_maximum { diffs.push("topic_alias_maximum"); }
        if fc.maximum_packet_size_bytes != uc.maximum_packet_size_bytes { diffs.push("maximum_packet_size"); }
        if fc.will_delay_interval_seconds != uc.will_delay_interval_seconds { diffs.push("will_delay"); }
        if fc.will != uc.will { diffs.push("will"); }
        if fc.user_properties != uc.user_properties { diffs.push("user_properties"); }
        if !diffs.is_empty() {
            l.violation("C20.R12-connect-option-not-preserved", &[("fields", diffs.join(","))], format!("connect options changed: {}", diffs.join(",")), replay.clone());
        }

        // client options
        let vc = gv::view_client_options(&final_client);
        let vu = gv::view_client_options(&if supply_client { client_options.clone() } else { MqttClientOptions::builder().build() });
        let mut cdiffs = Vec::new();
        if vc.offline_queue_policy != vu.offline_queue_policy { cdiffs.push("offline_queue_policy"); }
        if vc.connect_timeout != vu.connect_timeout { cdiffs.push("connect_timeout"); }
        if vc.ping_timeout != vu.ping_timeout { cdiffs.push("ping_timeout"); }
        if vc.has_outbound_alias_resolver_factory != vu.has_outbound_alias_resolver_factory { cdiffs.push("outbound_alias_resolver_factory"); }
        if vc.reconnect_period_jitter != vu.reconnect_period_jitter { cdiffs.push("reconnect_period_jitter"); }
        if vc.base_reconnect_period != vu.base_reconnect_period { cdiffs.push("base_reconnect_period"); }
        if vc.max_reconnect_period != vu.max_reconnect_period { cdiffs.push("max_reconnect_period"); }
        if vc.reconnect_stability_reset_period != vu.reconnect_stability_reset_period { cdiffs.push("reconnect_stability_reset_period"); }
        if vc.protocol_mode != vu.protocol_mode { cdiffs.push("protocol_mode"); }
        let apply_defaults = vu.protocol_mode == ProtocolMode::Mqtt311 && vu.post_reconnect_queue_drain_policy.is_none() && vu.max_interrupted_retries.is_none();
        if apply_defaults {
            l.count("c20.aws_311_defaults_expected");
            if vc.post_reconnect_queue_drain_policy != Some(PostReconnectQueueDrainPolicy::OneAtATime) || vc.max_interrupted_retries != Some(2) {
                l.violation("C20.R13-311-defaults-not-applied", &[], format!("MQTT 3.1.1 client with neither drain policy nor retry limit: got {:?} / {:?}", vc.post_reconnect_queue_drain_policy, vc.max_interrupted_retries), replay.clone());
            }
        } else {
            if vc.post_reconnect_queue_drain_policy != vu.post_reconnect_queue_drain_policy { cdiffs.push("post_reconnect_queue_drain_policy"); }
            if vc.max_interrupted_retries != vu.max_interrupted_retries { cdiffs.push("max_interrupted_retries"); }
        }
        if !cdiffs.is_empty() {
            l.violation("C20.R14-client-option-not-preserved", &[("fields", cdiffs.join(","))], format!("client options changed: {}", cdiffs.join(",")), replay.clone());
        }
        if l.samples.len() < 3 { l.sample(json!({"input": label, "final_username": fc.username, "final_client_id": fc.client_id})); }
    })
}
