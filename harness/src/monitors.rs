//! Online monitors, one rule set per engine-level property.  Each rule is a deterministic
//! function of the step records and the world model derived from them.

use crate::expect::*;
use crate::refmqtt as rf;
use crate::runner::*;
use crate::sim::Case;
use crate::specval::*;
use crate::world::*;
use gneiss_mqtt::client::NegotiatedSettings;
use gneiss_mqtt::verif::{EngineState, Snapshot};
use std::collections::{BTreeMap, HashMap, HashSet, VecDeque};

#[derive(Clone, Debug)]
pub struct Violation {
    pub property: &'static str,
    pub rule: &'static str,
    pub signature: BTreeMap<String, String>,
    pub step: usize,
    pub detail: String,
}

pub struct StepContext<'a> {
    pub pre_snapshot: Option<&'a Snapshot>,
    pub post_snapshot: Option<&'a Snapshot>,
    pub close_position: Option<&'a str>,
    pub unwritten_after: usize,
    pub settings_after: Option<NegotiatedSettings>,
}

#[derive(Default)]
struct ConnMon {
    // C10
    last_nonretrans_index: Option<usize>,
    seen_nonretrans: bool,
    last_retrans_index: Option<usize>,
    frontier: usize,
    // C05
    obligations: VecDeque<(&'static str, u16)>,
    // C17
    alias_out: HashMap<u16, String>,
    alias_in: HashMap<u16, String>,
    // C14
    last_tx_ms: Option<u64>,
    ping_outstanding_since: Option<u64>,
    // C09
    outstanding_ackable: HashSet<u64>,
    inflight_publishes: HashSet<u64>,
    // C18: (deadline, tag)
    armed: Vec<(u64, u64)>,
    // C07
    connect_seen: usize,
    // inbound processed count
    errored: bool,
}

pub struct Monitors {
    pub violations: Vec<Violation>,
    pub counters: BTreeMap<&'static str, usize>,
    seen: HashSet<String>,
    honest: bool,
    responsive: bool,
    keepalive_mode: bool,
    v5: bool,
    policy: u8,
    max_retries: Option<u32>,
    one_at_a_time: bool,
    conn: HashMap<usize, ConnMon>,
    inbound_qos2: HashSet<u16>,
    /// QoS2 ids whose membership in the engine's set cannot be inferred (they were in a delivery that failed part-way)
    inbound_qos2_unknown: HashSet<u16>,
    interrupted_set: HashSet<u64>,
    id_holders: HashMap<u16, Vec<usize>>,
    min_unresolved: usize,
    prev: Option<(u64, Option<u64>, usize)>, // (time, next_service, index) of previous step
    spin_run: usize,
    successes_since_reset: usize,
    pub audit_pending: Option<Option<u64>>,
    connect_spec: ConnectSpec,
    ping_timeout_ms: u64,
    ping_timeout_max: bool,
    pub stronger_slow_start_hits: usize,
    carried_interrupted_set: HashSet<u64>,
    /// C01.R7: tag -> (ack kind, id, token, step) of the final acknowledgement the engine accepted
    accepted_final: HashMap<u64, (&'static str, u16, Option<String>, usize)>,
    blind: bool,
    inbound_unframed: bool,
}

fn sig(pairs: &[(&str, String)]) -> BTreeMap<String, String> {
    pairs.iter().map(|(k, v)| (k.to_string(), v.clone())).collect()
}

impl Monitors {
    pub fn new(case: &Case) -> Monitors {
        let b = &case.broker;
        let responsive = b.honest() && b.ack_withhold_pct == 0 && b.connack_silent_pct == 0 && b.ping_withhold_pct == 0;
        let s = &case.sim;
        let keepalive_mode = s.prompt && s.write_chunk_max == 0 && s.write_stall_pct == 0 && s.jitter_max_ms == 0 && s.flush_error_pct == 0;
        let (honest, responsive, keepalive_mode) = case.force_flags.unwrap_or((b.honest(), responsive, keepalive_mode));
        Monitors {
            violations: Vec::new(), counters: BTreeMap::new(), seen: HashSet::new(), honest, responsive, keepalive_mode, v5: case.engine.v5,
            policy: case.engine.policy, max_retries: case.engine.max_retries, one_at_a_time: case.engine.one_at_a_time, conn: HashMap::new(),
            inbound_qos2: HashSet::new(), inbound_qos2_unknown: HashSet::new(), interrupted_set: HashSet::new(), id_holders: HashMap::new(), min_unresolved: 0, prev: None, spin_run: 0, successes_since_reset: 0,
            audit_pending: None, connect_spec: case.engine.connect.clone(), ping_timeout_ms: case.engine.ping_timeout_ms, ping_timeout_max: case.engine.ping_timeout_max,
            stronger_slow_start_hits: 0, carried_interrupted_set: HashSet::new(), accepted_final: HashMap::new(), blind: false, inbound_unframed: false,
        }
    }

    pub fn flags(&self) -> (bool, bool, bool) { (self.honest, self.responsive, self.keepalive_mode) }

    fn count(&mut self, key: &'static str) { *self.counters.entry(key).or_insert(0) += 1; }

    fn viol(&mut self, property: &'static str, rule: &'static str, signature: BTreeMap<String, String>, step: usize, detail: String) {
        let key = format!("{}|{:?}", rule, signature);
        if self.seen.insert(key) {
            self.violations.push(Violation { property, rule, signature, step, detail });
        }
    }

    fn cm(&mut self, c: usize) -> &mut ConnMon { self.conn.entry(c).or_default() }

    pub fn on_step(&mut self, world: &World, rec: &StepRecord, delta: &Delta, ctx: &StepContext) {
        self.c11_panics(world, rec, ctx);
        if delta.connack_opaque {
            // a CONNACK the engine accepted but the reference decoder could not frame: from here on
            // the session outcome and the announced capabilities are unknown to the monitors
            if self.honest { self.viol("HARNESS", "HARNESS.bookkeeping", sig(&[]), rec.index, "an honest broker's CONNACK could not be decoded by the reference decoder".into()); }
            self.blind = true;
            self.count("harness.blind_after_opaque_connack");
        }
        if !self.blind {
            if let Some(c) = world.current {
                if world.conns[c].inbound_decoder.error.is_some() && world.conns[c].first_error.is_none() {
                    // the engine keeps accepting a server stream that the strict reference decoder can
                    // no longer frame (mutated bytes it is lenient about): acknowledgements can no
                    // longer be attributed by the monitors
                    if self.honest { self.viol("HARNESS", "HARNESS.bookkeeping", sig(&[]), rec.index, format!("an honest broker's stream could not be framed: {:?}", world.conns[c].inbound_decoder.error)); }
                    self.blind = true;
                    self.inbound_unframed = true;
                    self.count("harness.blind_after_unframed_inbound");
                }
            }
        }
        if self.blind {
            self.c01(world, rec, delta, ctx);
            self.c11_rules(world, rec, delta);
            self.prev = Some((rec.time_ms, rec.next_service_ms, rec.index));
            return;
        }
        self.c02_wire(world, rec, delta);
        if let (Event::Close, Some(snap)) = (&rec.event, ctx.pre_snapshot) {
            let c = world.conns.len().saturating_sub(1);
            if world.conns.get(c).map(|k| k.first_error.is_none()).unwrap_or(false) { self.c06_reservation(world, c, snap, rec.index, "close"); }
        }
        self.c01(world, rec, delta, ctx);
        self.c04_c06_c10_c09_c17_out(world, rec, delta);
        self.c05_c17_in(world, rec, delta);
        self.c07(world, rec, delta, ctx);
        self.c08(world, rec, delta);
        self.c11_rules(world, rec, delta);
        self.c14(world, rec, delta);
        self.c15(world, rec, delta);
        self.c18(world, rec, delta);
        self.c16_completions(world, rec);
        if let Event::Reset = rec.event {
            self.successes_since_reset = 0;
            self.inbound_qos2.clear();
            self.inbound_qos2_unknown.clear();
            self.interrupted_set.clear();
        }
        if delta.connack_accepted { self.successes_since_reset += 1; }
        self.prev = Some((rec.time_ms, rec.next_service_ms, rec.index));
    }

    /* ------------------------------------------------------------------------------ C11.R1 */
    fn c11_panics(&mut self, world: &World, rec: &StepRecord, ctx: &StepContext) {
        let mut p: Option<(&String, &String)> = None;
        if let CallResult::Panic(m, l) = &rec.result { p = Some((m, l)); }
        if let Some((m, l)) = &rec.next_service_panic { p = Some((m, l)); }
        if let Some((m, l)) = p {
            let (msg, file) = panic_signature(m, l);
            let mut s = sig(&[("panic_message", msg), ("panic_file", file), ("entry_point", rec.event.kind().to_string())]);
            // causal facts
            if let Some(c) = world.conn() {
                let connect_written = c.emitted.first().map(|w| w.written_step.is_some()).unwrap_or(false);
                let connect_emitted = !c.emitted.is_empty();
                s.insert("connect_fully_emitted".into(), connect_emitted.to_string());
                s.insert("connect_fully_written".into(), connect_written.to_string());
            }
            let _ = ctx;
            self.viol("C11", "C11.R1-panic", s, rec.index, format!("panic in {}: {} at {}", rec.event.kind(), m, l));
        }
    }

    /* ------------------------------------------------------------------------------ C02 (wire) */
    fn c02_wire(&mut self, world: &World, rec: &StepRecord, delta: &Delta) {
        if let Some(e) = &delta.emitted_decode_error {
            let rule_text = e.clone();
            self.viol("C02", "C02.W1-wire-malformed", sig(&[("decoder_rule", rule_text)]), rec.index, format!("strict reference decoder rejected the emitted stream: {}", e));
        }
        for (c, pi) in &delta.new_emitted {
            let wp = &world.conns[*c].emitted[*pi];
            self.count("c02.wire_packets");
            if let Some(tag) = wp.tag {
                if let Some(op) = world.op(tag) {
                    match (&wp.packet, &op.spec.body) {
                        (rf::Packet::Publish(p), OpBody::Publish(spec)) => {
                            let exp = expected_publish(spec, self.v5);
                            if let Some(field) = publish_content_diff(p, &exp) {
                                self.viol("C02", "C02.W2-wire-content", sig(&[("packet", "PUBLISH".into()), ("field", field.into())]), rec.index, format!("op {} differs from what was submitted in {}", tag, field));
                            }
                        }
                        (rf::Packet::Subscribe(s), OpBody::Subscribe(spec)) => {
                            let mut exp = expected_subscribe(spec, self.v5);
                            exp.packet_id = s.packet_id;
                            if *s != exp {
                                self.viol("C02", "C02.W2-wire-content", sig(&[("packet", "SUBSCRIBE".into())]), rec.index, format!("op {}: {:?} != {:?}", tag, s, exp));
                            }
                        }
                        (rf::Packet::Unsubscribe(s), OpBody::Unsubscribe(spec)) => {
                            let mut exp = expected_unsubscribe(spec, self.v5);
                            exp.packet_id = s.packet_id;
                            if *s != exp {
                                self.viol("C02", "C02.W2-wire-content", sig(&[("packet", "UNSUBSCRIBE".into())]), rec.index, format!("op {}: {:?} != {:?}", tag, s, exp));
                            }
                        }
                        _ => {}
                    }
                }
            }
        }
    }

    /* ------------------------------------------------------------------------------ C01 */
    fn c01(&mut self, world: &World, rec: &StepRecord, delta: &Delta, ctx: &StepContext) {
        let cur = world.current.or_else(|| if let Event::Close = rec.event { Some(world.conns.len().saturating_sub(1)) } else { None });
        for (tag, outcome) in &rec.completions {
            let op = match world.op(*tag) { Some(o) => o, None => continue };
            let n = op.completions.len();
            if n > 1 {
                let first = op.completions[0].2.short();
                self.viol("C01", "C01.R1-resolved-twice", sig(&[("kind", op.kind.name().into()), ("first", first.clone()), ("second", outcome.short())]), rec.index, format!("op {} resolved again: first {}, now {}", tag, first, outcome.short()));
                continue;
            }
            match outcome {
                OutcomeView::Dropped => {
                    self.viol("C01", "C01.R2-dropped-uncalled", sig(&[("kind", op.kind.name().into()), ("event", rec.event.kind().into())]), rec.index, format!("completion handler of op {} dropped without being called", tag));
                }
                OutcomeView::Err(_, _) => { self.count("c01.completed_err"); }
                ok => {
                    self.count("c01.completed_ok");
                    let bad = |why: &str| -> Option<String> { Some(why.to_string()) };
                    let conn = cur;
                    let mut problem: Option<String> = None;
                    let unframed = self.inbound_unframed;
                    let inbound_has = |kind: &str, id: u16, token: &Option<String>| -> bool {
                        unframed || delta.new_inbound.iter().any(|(c, ii)| {
                            let p = &world.conns[*c].inbound[*ii].packet;
                            match (kind, p) {
                                ("PUBACK", rf::Packet::Puback(a)) | ("PUBREC", rf::Packet::Pubrec(a)) | ("PUBCOMP", rf::Packet::Pubcomp(a)) => a.packet_id == id && a.reason_string == *token,
                                ("SUBACK", rf::Packet::Suback(a)) => a.packet_id == id && a.reason_string == *token,
                                ("UNSUBACK", rf::Packet::Unsuback(a)) => a.packet_id == id && a.reason_string == *token,
                                _ => false,
                            }
                        })
                    };
                    let sent_with = |id: u16| -> bool {
                        conn.map(|c| op.appearances.iter().any(|a| a.conn == c && a.packet_id == id && a.kind != WireKind::Pubrel && a.emitted_step < rec.index)).unwrap_or(false)
                    };
                    match ok {
                        OutcomeView::Qos0 => {
                            if op.kind != OpKind::Pub0 { problem = bad("qos0-result-for-ackable-op"); }
                            else if !matches!(rec.event, Event::WriteComplete) { problem = bad("qos0-result-outside-write-completion"); }
                            else if !conn.map(|c| op.appearances.iter().any(|a| a.conn == c && a.written_step.is_some())).unwrap_or(false) { problem = bad("qos0-result-before-bytes-written"); }
                        }
                        OutcomeView::Puback(a) => {
                            if op.kind != OpKind::Pub1 { problem = bad("puback-for-non-qos1"); }
                            else if !sent_with(a.packet_id) { problem = bad("ack-id-not-the-id-sent-with"); }
                            else if !inbound_has("PUBACK", a.packet_id, &a.token) { problem = bad("ack-not-delivered-in-this-step"); }
                        }
                        OutcomeView::Pubrec(a) => {
                            if op.kind != OpKind::Pub2 { problem = bad("pubrec-for-non-qos2"); }
                            else if a.reason < 0x80 { problem = bad("completed-by-successful-pubrec"); }
                            else if !sent_with(a.packet_id) { problem = bad("ack-id-not-the-id-sent-with"); }
                            else if !inbound_has("PUBREC", a.packet_id, &a.token) { problem = bad("ack-not-delivered-in-this-step"); }
                        }
                        OutcomeView::Pubcomp(a) => {
                            if op.kind != OpKind::Pub2 { problem = bad("pubcomp-for-non-qos2"); }
                            else if !op.live_appearances().any(|x| x.packet_id == a.packet_id && x.emitted_step < rec.index) { problem = bad("ack-id-not-the-id-sent-with"); }
                            else if !inbound_has("PUBCOMP", a.packet_id, &a.token) { problem = bad("ack-not-delivered-in-this-step"); }
                        }
                        OutcomeView::Suback { packet_id, codes, token } => {
                            if op.kind != OpKind::Sub { problem = bad("suback-for-non-subscribe"); }
                            else if codes.len() != op.entries { problem = bad("reason-code-count-mismatch"); }
                            else if !sent_with(*packet_id) { problem = bad("ack-id-not-the-id-sent-with"); }
                            else if !inbound_has("SUBACK", *packet_id, token) { problem = bad("ack-not-delivered-in-this-step"); }
                        }
                        OutcomeView::Unsuback { packet_id, codes, token } => {
                            if op.kind != OpKind::Unsub { problem = bad("unsuback-for-non-unsubscribe"); }
                            else if codes.len() != op.entries { problem = bad("reason-code-count-mismatch"); }
                            else if !sent_with(*packet_id) { problem = bad("ack-id-not-the-id-sent-with"); }
                            else if !inbound_has("UNSUBACK", *packet_id, token) { problem = bad("ack-not-delivered-in-this-step"); }
                        }
                        _ => {}
                    }
                    if let Some(why) = problem {
                        self.viol("C01", "C01.R3-wrong-acknowledgement", sig(&[("kind", op.kind.name().into()), ("why", why.clone()), ("result", ok.short())]), rec.index, format!("op {} completed with {} but {}", tag, ok.short(), why));
                    }
                }
            }
        }
        // R7: a final acknowledgement that belongs to an unresolved operation (id it was sent with on
        // this connection, matching packet type, packet completely written before this step) and that
        // the engine processed without error ends that operation's flow: whenever the operation is
        // reported successful (in this step or later) the result must carry exactly that
        // acknowledgement - not a later one (e.g. a PUBCOMP obtained by going on after a failing
        // PUBREC). The statement allows an error result at any time, so errors are not judged here, and
        // "never resolved" is R4/R6. Judged only when the whole delivery returned Ok (otherwise only a
        // prefix was processed) and the reference decoder could frame the server's stream.
        if matches!(rec.result, CallResult::Ok) && !self.blind && !self.inbound_unframed {
            for (c, ii) in &delta.new_inbound {
                let ip = &world.conns[*c].inbound[*ii];
                let (kind, pid, reason, token): (&'static str, u16, u8, Option<String>) = match &ip.packet {
                    rf::Packet::Puback(a) => ("PUBACK", a.packet_id, a.reason, a.reason_string.clone()),
                    rf::Packet::Pubrec(a) => ("PUBREC", a.packet_id, a.reason, a.reason_string.clone()),
                    rf::Packet::Pubcomp(a) => ("PUBCOMP", a.packet_id, a.reason, a.reason_string.clone()),
                    rf::Packet::Suback(a) => ("SUBACK", a.packet_id, 0, a.reason_string.clone()),
                    rf::Packet::Unsuback(a) => ("UNSUBACK", a.packet_id, 0, a.reason_string.clone()),
                    _ => continue,
                };
                let oi = match world.conn_ids.get(&(*c, pid)) { Some(oi) => *oi, None => continue };
                let op = &world.ops[oi];
                if op.resolved_before(rec.index) { continue; }
                let sent = |k: WireKind| op.appearances.iter().any(|a| a.conn == *c && a.packet_id == pid && a.kind == k && a.written_step.map(|w| w < rec.index).unwrap_or(false));
                let is_final = match (kind, op.kind) {
                    ("PUBACK", OpKind::Pub1) => sent(WireKind::Publish),
                    ("PUBREC", OpKind::Pub2) => reason >= 0x80 && sent(WireKind::Publish) && !sent(WireKind::Pubrel) && !op.pubrec_received && !op.pubrec_uncertain,
                    ("PUBCOMP", OpKind::Pub2) => sent(WireKind::Pubrel),
                    ("SUBACK", OpKind::Sub) => sent(WireKind::Subscribe),
                    ("UNSUBACK", OpKind::Unsub) => sent(WireKind::Unsubscribe),
                    _ => false,
                };
                if !is_final { continue; }
                self.count("c01.final_acks_delivered");
                if reason >= 0x80 { self.count("c01.failing_final_acks_delivered"); }
                if kind == "PUBREC" { self.count("c01.failing_pubrecs_delivered"); }
                self.accepted_final.entry(op.tag).or_insert((kind, pid, token, rec.index));
            }
        }
        for (tag, outcome) in &rec.completions {
            let exp = match self.accepted_final.get(tag) { Some(e) => e.clone(), None => continue };
            let (got_kind, got_id, got_token): (&'static str, u16, Option<String>) = match outcome {
                OutcomeView::Puback(a) => ("PUBACK", a.packet_id, a.token.clone()),
                OutcomeView::Pubrec(a) => ("PUBREC", a.packet_id, a.token.clone()),
                OutcomeView::Pubcomp(a) => ("PUBCOMP", a.packet_id, a.token.clone()),
                OutcomeView::Suback { packet_id, token, .. } => ("SUBACK", *packet_id, token.clone()),
                OutcomeView::Unsuback { packet_id, token, .. } => ("UNSUBACK", *packet_id, token.clone()),
                _ => continue, // errors (always allowed by the statement), Qos0, Dropped (R2)
            };
            self.count("c01.successes_after_final_ack");
            if got_kind != exp.0 || got_id != exp.1 || got_token != exp.2 {
                let kind_name = world.op(*tag).map(|o| o.kind.name()).unwrap_or("?");
                self.viol("C01", "C01.R7-resolved-by-a-later-acknowledgement", sig(&[("kind", kind_name.into()), ("accepted", exp.0.into()), ("reported", got_kind.into())]), rec.index, format!("op {}: the engine accepted its {} (id {}, step {}) but reported success with {} (id {})", tag, exp.0, exp.1, exp.3, got_kind, got_id));
            }
        }
        if let (Event::Reset, Some(s)) = (&rec.event, ctx.post_snapshot) {
            self.count("c01.resets_checked");
            let mut left = Vec::new();
            if s.operations != 0 { left.push("operations"); }
            if s.user_queue != 0 { left.push("user_queue"); }
            if s.resubmit_queue != 0 { left.push("resubmit_queue"); }
            if s.high_priority_queue != 0 { left.push("high_priority_queue"); }
            if s.current_operation.is_some() { left.push("current_operation"); }
            if s.pending_publish != 0 { left.push("pending_publish"); }
            if s.pending_non_publish != 0 { left.push("pending_non_publish"); }
            if s.pending_write_completion_operations != 0 { left.push("pending_write_completion_operations"); }
            if s.ack_timeouts != 0 { left.push("ack_timeouts"); }
            if s.inbound_qos2 != 0 { left.push("inbound_qos2"); }
            if s.allocated_packet_ids != 0 { left.push("allocated_packet_ids"); }
            if s.pending_write_completion { left.push("pending_write_completion"); }
            if !left.is_empty() {
                self.viol("C01", "C01.R5-tracked-after-reset", sig(&[("containers", left.join(","))]), rec.index, format!("after reset still tracked: {}", left.join(",")));
            }
            // every operation submitted before the reset must be resolved now
            for op in &world.ops {
                if op.rejected_at_submit.is_some() { continue; }
                if op.completions.is_empty() {
                    self.viol("C01", "C01.R4-never-resolved", sig(&[("kind", op.kind.name().into()), ("when", "after-reset".into())]), rec.index, format!("op {} has no result after reset", op.tag));
                }
            }
        }
    }

    /* ------------------------------------------------ C04, C06, C09, C10, C17 (outbound) */
    fn c04_c06_c10_c09_c17_out(&mut self, world: &World, rec: &StepRecord, delta: &Delta) {
        // advance the global "smallest unresolved index" pointer
        while self.min_unresolved < world.ops.len() && world.ops[self.min_unresolved].resolved_before(rec.index) { self.min_unresolved += 1; }

        if let Event::Close = rec.event {
            // remember the set interrupted by this close (C09 slow start)
            let c = world.conns.len() - 1;
            let set: HashSet<u64> = world.ops.iter().skip(self.min_unresolved).filter(|o| o.kind.needs_ack() && !o.resolved_before(rec.index) && o.appearances.iter().any(|a| a.conn == c)).map(|o| o.tag).collect();
            if world.conns[c].connack.is_none() {
                // the connection that ends here was never established (no successful CONNACK): this
                // is a failed attempt, not a disconnection. The operations interrupted by the last
                // real disconnection are still "previously interrupted" for the next reconnect.
                let prev: Vec<u64> = self.interrupted_set.iter().chain(self.carried_interrupted_set.iter()).copied().collect();
                self.carried_interrupted_set = prev.into_iter().filter(|t| world.op(*t).map(|o| !o.resolved_before(rec.index)).unwrap_or(false)).collect();
                if !self.carried_interrupted_set.is_empty() { self.count("c09.failed_attempt_with_interrupted_operations"); }
            } else {
                if !self.carried_interrupted_set.is_empty() || self.interrupted_set.iter().any(|t| !set.contains(t) && world.op(*t).map(|o| !o.resolved_before(rec.index)).unwrap_or(false)) {
                    // a second disconnection before the first one's set was drained: the literal
                    // reading of the statement only protects the newest set (statistic only)
                    self.stronger_slow_start_hits += 1;
                }
                self.carried_interrupted_set.clear();
            }
            self.interrupted_set = set;
        }

        for (c, pi) in &delta.new_emitted {
            let c = *c;
            let wp = &world.conns[c].emitted[*pi];
            let conn = &world.conns[c];
            let caps_k = conn.connack.clone();

            // C17 outbound alias table (all PUBLISH packets, tagged or not)
            if let rf::Packet::Publish(p) = &wp.packet {
                let max = caps_k.as_ref().and_then(|k| k.topic_alias_maximum).unwrap_or(0);
                let mut resolved = p.topic.clone();
                self.count("c17.out_publishes");
                if let Some(a) = p.topic_alias {
                    self.count("c17.out_alias_used");
                    if !self.v5 || max == 0 {
                        self.viol("C17", "C17.O1-alias-when-forbidden", sig(&[("maximum", max.to_string())]), rec.index, format!("alias {} sent although the server maximum is {}", a, max));
                    } else if a == 0 || a > max {
                        self.viol("C17", "C17.O2-alias-out-of-range", sig(&[("zero", (a == 0).to_string())]), rec.index, format!("alias {} outside [1,{}]", a, max));
                    }
                    if p.topic.is_empty() {
                        self.count("c17.out_alias_only");
                        match self.cm(c).alias_out.get(&a) {
                            Some(t) => resolved = t.clone(),
                            None => {
                                self.viol("C17", "C17.O3-empty-topic-unbound-alias", sig(&[("alias_seen_before", "false".into())]), rec.index, format!("PUBLISH with empty topic and alias {} never bound on this connection", a));
                            }
                        }
                    } else {
                        self.cm(c).alias_out.insert(a, p.topic.clone());
                    }
                } else if p.topic.is_empty() {
                    self.viol("C17", "C17.O3-empty-topic-unbound-alias", sig(&[("alias_seen_before", "no-alias".into())]), rec.index, "PUBLISH with empty topic and no alias".into());
                }
                if let Some(tag) = wp.tag {
                    if let Some(op) = world.op(tag) {
                        if let OpBody::Publish(spec) = &op.spec.body {
                            if resolved != spec.topic {
                                // find out whether the binding used came from an operation that failed validation
                                self.viol("C17", "C17.O4-server-reconstructs-wrong-topic", sig(&[("empty_topic", p.topic.is_empty().to_string())]), rec.index, format!("op {}: server would reconstruct '{}' but the application supplied '{}'", tag, resolved, spec.topic));
                                // the same fact is C02's "an independent decoder recovers exactly the content supplied ... for every alias-resolution outcome"
                                self.viol("C02", "C02.W2-wire-content", sig(&[("packet", "PUBLISH".into()), ("field", "topic".into())]), rec.index, format!("op {}: a conformant receiver recovers topic '{}' but the application supplied '{}'", tag, resolved, spec.topic));
                            }
                        }
                    }
                }
            }

            // C16 wire re-validation against the announced capabilities
            if let Some(k) = &caps_k {
                let caps = caps_from_connack(k);
                let len = wp.end - wp.start;
                if matches!(wp.packet, rf::Packet::Publish(_) | rf::Packet::Subscribe(_) | rf::Packet::Unsubscribe(_)) {
                    self.count("c16.wire_checked");
                    if let Verdict::MustReject(rule) = wire_against_caps(&wp.packet, len, &caps, self.v5) {
                        self.viol("C16", "C16.W1-limit-violated-on-wire", sig(&[("packet", wp.packet.kind().into()), ("limit", rule.into())]), rec.index, format!("{} on the wire violates {}", wp.packet.kind(), rule));
                    }
                }
            }

            let tag = match wp.tag { Some(t) => t, None => continue };
            let op = match world.op(tag) { Some(o) => o, None => continue };
            let app = match op.appearances.iter().rev().find(|a| a.conn == c && a.packet_index == *pi) { Some(a) => a.clone(), None => continue };
            let session_present = caps_k.as_ref().map(|k| k.session_present).unwrap_or(false);

            // nothing of an operation after its result was delivered
            if op.resolved_before(rec.index) {
                let res = op.completions.first().map(|c| c.2.short()).unwrap_or_default();
                self.viol("C04", "C04.R5-transmitted-after-completion", sig(&[("kind", op.kind.name().into()), ("result", res.clone()), ("packet", format!("{:?}", app.kind))]), rec.index, format!("op {} transmitted after it was resolved with {}", tag, res));
                if res.contains("OfflineQueuePolicyFailed") {
                    self.viol("C15", "C15.R6-rejected-op-sent-later", sig(&[("kind", op.kind.name().into())]), rec.index, format!("op {} failed by offline policy but transmitted later", tag));
                }
            }

            let prior_live: Vec<&Appearance> = op.live_appearances().filter(|a| !(a.conn == c && a.packet_index == *pi)).collect();
            let same_conn_same_kind = op.appearances.iter().filter(|a| a.conn == c && a.kind == app.kind).count();

            match app.kind {
                WireKind::Publish if op.kind != OpKind::Pub0 => {
                    self.count("c04.publishes_seen");
                    if same_conn_same_kind > 1 {
                        self.viol("C04", "C04.R3-repeated-in-connection", sig(&[("packet", "PUBLISH".into())]), rec.index, format!("op {}: PUBLISH twice in connection {}", tag, c));
                    }
                    if op.pubrec_received && !op.pubrec_uncertain {
                        self.viol("C04", "C04.R4-publish-after-pubrec", sig(&[("dup", app.dup.to_string())]), rec.index, format!("op {}: PUBLISH sent again after PUBREC", tag));
                    }
                    let prior_pub: Vec<&&Appearance> = prior_live.iter().filter(|a| a.kind == WireKind::Publish && a.conn < c).collect();
                    if prior_pub.is_empty() {
                        if app.dup {
                            self.viol("C04", "C04.R1-first-transmission-dup", sig(&[("session_present", session_present.to_string())]), rec.index, format!("op {}: first transmission (of this session) has DUP=1", tag));
                        } else { self.count("c04.first_transmissions"); }
                    } else {
                        // retransmission within a resumed session
                        self.count("c04.retransmissions");
                        let orig = prior_pub[0];
                        if !app.dup {
                            self.viol("C04", "C04.R2a-retransmission-without-dup", sig(&[("session_present", session_present.to_string())]), rec.index, format!("op {}: retransmitted with DUP=0", tag));
                        }
                        if app.packet_id != orig.packet_id {
                            self.viol("C04", "C04.R2b-retransmission-new-id", sig(&[]), rec.index, format!("op {}: retransmitted with id {} (was {})", tag, app.packet_id, orig.packet_id));
                            self.viol("C06", "C06.R3-retransmission-new-id", sig(&[]), rec.index, format!("op {}: retransmitted with id {} (was {})", tag, app.packet_id, orig.packet_id));
                        }
                        if !session_present {
                            self.viol("C04", "C04.R2c-retransmission-without-session", sig(&[]), rec.index, format!("op {}: PUBLISH retransmitted although the server reported no session", tag));
                        }
                        if let (rf::Packet::Publish(now_p), rf::Packet::Publish(old_p)) = (&wp.packet, &world.conns[orig.conn].emitted[orig.packet_index].packet) {
                            if let Some(f) = publish_content_diff(now_p, old_p) {
                                self.viol("C04", "C04.R2d-retransmission-content", sig(&[("field", f.into())]), rec.index, format!("op {}: retransmission differs in {}", tag, f));
                            }
                            // the topic is part of the application content: what a conformant server
                            // reconstructs on THIS connection (its alias table starts empty) must be
                            // the topic the application supplied
                            if let OpBody::Publish(spec) = &op.spec.body {
                                let recon: Option<String> = if !now_p.topic.is_empty() { Some(now_p.topic.clone()) } else { now_p.topic_alias.and_then(|a| self.cm(c).alias_out.get(&a).cloned()) };
                                if recon.as_deref() != Some(spec.topic.as_str()) {
                                    self.viol("C04", "C04.R2d-retransmission-content", sig(&[("field", "topic".into())]), rec.index, format!("op {}: the retransmission lets the server reconstruct topic {:?}, the application supplied {:?}", tag, recon, spec.topic));
                                }
                            }
                        }
                    }
                }
                WireKind::Pubrel => {
                    self.count("c04.pubrels_seen");
                    if same_conn_same_kind > 1 {
                        let pos = world.conns.get(c.wrapping_sub(1)).and_then(|_| None::<String>).unwrap_or_default();
                        let _ = pos;
                        self.viol("C04", "C04.R3-repeated-in-connection", sig(&[("packet", "PUBREL".into()), ("resumed", (prior_live.iter().any(|a| a.conn < c)).to_string())]), rec.index, format!("op {}: PUBREL twice in connection {}", tag, c));
                    }
                    if !op.pubrec_received && !op.pubrec_uncertain {
                        self.viol("C04", "C04.R6-pubrel-without-pubrec", sig(&[]), rec.index, format!("op {}: PUBREL sent but no successful PUBREC was delivered", tag));
                    }
                    if prior_live.iter().any(|a| a.conn < c) { self.count("c04.pubrel_resumptions"); }
                }
                _ => {}
            }

            // C06
            if matches!(app.kind, WireKind::Publish | WireKind::Subscribe | WireKind::Unsubscribe) && op.kind != OpKind::Pub0 {
                self.count("c06.ids_seen");
                if app.packet_id == 0 {
                    self.viol("C06", "C06.R1-zero-id", sig(&[("packet", format!("{:?}", app.kind))]), rec.index, format!("op {} sent with packet id 0", tag));
                }
                if app.packet_id == 65535 { self.count("c06.saw_max_id"); }
                let holders = self.id_holders.entry(app.packet_id).or_default();
                // an operation resolved in this very step (e.g. failed by send-time validation or by an ack
                // timeout inside the same service call, before this packet was encoded) no longer awaits
                // an acknowledgement; the order of completions and emissions inside one call is not
                // observable, so such an operation is never counted as a holder
                holders.retain(|oi| !world.ops[*oi].resolved_before(rec.index + 1));
                let mut clash: Option<usize> = None;
                for oi in holders.iter() {
                    let other = &world.ops[*oi];
                    if other.tag == tag { continue; }
                    let holds = if other.kind.is_publish() {
                        other.live_appearances().any(|a| a.kind == WireKind::Publish && a.packet_id == app.packet_id)
                    } else {
                        other.appearances.iter().any(|a| a.conn == c && a.packet_id == app.packet_id)
                    };
                    if holds { clash = Some(*oi); break; }
                }
                if !holders.contains(&op.index) { holders.push(op.index); }
                if let Some(oi) = clash {
                    let other = &world.ops[oi];
                    self.viol("C06", "C06.R2-id-in-use", sig(&[("holder", other.kind.name().into()), ("new", op.kind.name().into())]), rec.index, format!("op {} sent with id {} which op {} still holds", tag, app.packet_id, other.tag));
                }
            }

            // C09 receive maximum + slow start. Operations resolved inside this very step (an ack timeout or a
            // validation failure in the same service call that then sends the next packet) no longer count:
            // the order of completions and emissions inside one call is not observable.
            let horizon = rec.index + 1;
            if op.kind.needs_ack() && !op.resolved_before(rec.index) {
                let rm = caps_k.as_ref().and_then(|k| k.receive_maximum).unwrap_or(65535) as usize;
                let ops = &world.ops;
                let by_tag = &world.by_tag;
                let cmon = self.conn.entry(c).or_default();
                if op.kind.is_publish() { cmon.inflight_publishes.insert(tag); }
                cmon.outstanding_ackable.insert(tag);
                // a QoS>0 publish stops counting against the receive maximum once it is resolved - except
                // when the client reported success on a *successful* PUBREC (reason < 0x80): the server
                // still holds that message until PUBCOMP, so it is not "completed" in any reading
                cmon.inflight_publishes.retain(|t| by_tag.get(t).map(|i| {
                    let o = &ops[*i];
                    if !o.resolved_before(horizon) { return true; }
                    o.completions.iter().any(|(s, _, out)| *s < horizon && matches!(out, OutcomeView::Pubrec(a) if a.reason < 0x80))
                }).unwrap_or(false));
                cmon.outstanding_ackable.retain(|t| by_tag.get(t).map(|i| !ops[*i].resolved_before(horizon)).unwrap_or(false));
                let inflight = cmon.inflight_publishes.len();
                let outstanding = cmon.outstanding_ackable.len();
                if op.kind.is_publish() {
                    if inflight == rm { self.count("c09.window_full"); }
                    self.count("c09.flows_counted");
                    if inflight > rm {
                        self.viol("C09", "C09.R1-receive-maximum-exceeded", sig(&[("receive_maximum", if rm == 65535 { "65535".into() } else { "announced".to_string() })]), rec.index, format!("{} QoS>0 publishes in flight, receive maximum {}", inflight, rm));
                    }
                }
                if self.one_at_a_time && caps_k.is_some() {
                    let pending_interrupted = self.interrupted_set.iter().any(|t| world.op(*t).map(|o| !o.resolved_before(horizon)).unwrap_or(false));
                    if pending_interrupted {
                        self.count("c09.slow_start_evaluated");
                        if outstanding > 1 {
                            self.viol("C09", "C09.R2-slow-start-exceeded", sig(&[]), rec.index, format!("{} acknowledged operations outstanding while interrupted operations are unresolved", outstanding));
                        }
                    }
                    let pending_carried = !pending_interrupted && self.carried_interrupted_set.iter().any(|t| world.op(*t).map(|o| !o.resolved_before(horizon)).unwrap_or(false));
                    if pending_carried {
                        self.count("c09.slow_start_evaluated_after_failed_attempt");
                        if outstanding > 1 {
                            self.viol("C09", "C09.R3-slow-start-forgotten-after-failed-attempt", sig(&[]), rec.index, format!("{} acknowledged operations outstanding although operations interrupted by the last disconnection are unresolved (only failed connection attempts in between)", outstanding));
                        }
                    }
                }
            }

            // C10 order of first appearances
            let is_retrans = match app.kind {
                WireKind::Publish => app.dup,
                WireKind::Pubrel => prior_live.iter().any(|a| a.conn < c),
                _ => false,
            };
            let first_on_conn = op.appearances.iter().filter(|a| a.conn == c).count() == 1;
            if app.kind == WireKind::Pubrel && !is_retrans { continue; }
            if !first_on_conn { continue; }
            self.count("c10.first_appearances");
            let min_unres = self.min_unresolved;
            let cm = self.conn.entry(c).or_default();
            if cm.frontier < min_unres { cm.frontier = min_unres; }
            if is_retrans {
                let mut v: Option<(&'static str, String)> = None;
                if cm.seen_nonretrans { v = Some(("C10.R2a-retransmission-after-new-operation", format!("op {} retransmitted after a fresh operation on connection {}", tag, c))); }
                if let Some(l) = cm.last_retrans_index { if l > op.index { v = Some(("C10.R2b-retransmission-order", format!("retransmission of op index {} after index {}", op.index, l))); } }
                cm.last_retrans_index = Some(op.index);
                if let Some((rule, d)) = v { self.viol("C10", rule, sig(&[]), rec.index, d); }
                self.count("c10.retransmissions_ordered");
            } else {
                let mut v: Option<(&'static str, String)> = None;
                if let Some(l) = cm.last_nonretrans_index { if l > op.index { v = Some(("C10.R1-submission-order", format!("op index {} first transmitted after op index {}", op.index, l))); } }
                cm.last_nonretrans_index = Some(cm.last_nonretrans_index.map(|l| l.max(op.index)).unwrap_or(op.index));
                cm.seen_nonretrans = true;
                // R3: nothing earlier may still be waiting
                let mut f = cm.frontier;
                while f < op.index {
                    let a = &world.ops[f];
                    // an earlier operation that was failed inside this same call (send-time validation, ack timeout) is not waiting
                    let waiting = a.rejected_at_submit.is_none() && !a.resolved_before(rec.index + 1) && !a.appearances.iter().any(|x| x.conn == c);
                    if waiting {
                        v = Some(("C10.R3-overtaken", format!("op index {} ({}) transmitted while earlier op index {} ({}) is still waiting", op.index, op.kind.name(), a.index, a.kind.name())));
                        break;
                    }
                    f += 1;
                }
                let cm = self.conn.entry(c).or_default();
                cm.frontier = f;
                if let Some((rule, d)) = v { self.viol("C10", rule, sig(&[("kind", op.kind.name().into())]), rec.index, d); }
            }
        }
    }

    /* ------------------------------------------------------------------ C05 + C17 inbound */
    fn c05_c17_in(&mut self, world: &World, rec: &StepRecord, delta: &Delta) {
        // client acks on the wire discharge obligations in FIFO order
        for (c, pi) in &delta.new_emitted {
            let wp = &world.conns[*c].emitted[*pi];
            let (kind, id): (&'static str, u16) = match &wp.packet {
                rf::Packet::Puback(a) => ("PUBACK", a.packet_id),
                rf::Packet::Pubrec(a) => ("PUBREC", a.packet_id),
                rf::Packet::Pubcomp(a) => ("PUBCOMP", a.packet_id),
                _ => continue,
            };
            self.count("c05.acks_seen");
            let cm = self.cm(*c);
            match cm.obligations.front().copied() {
                Some((k, i)) if k == kind && i == id => { cm.obligations.pop_front(); }
                Some((k, i)) => {
                    let present = cm.obligations.iter().any(|(k2, i2)| *k2 == kind && *i2 == id);
                    if present {
                        // discharge it anyway so that one misordering is reported once
                        let pos = cm.obligations.iter().position(|(k2, i2)| *k2 == kind && *i2 == id).unwrap();
                        cm.obligations.remove(pos);
                        self.viol("C05", "C05.R3-ack-order", sig(&[("sent", kind.into()), ("expected", k.into())]), rec.index, format!("{}({}) sent while {}({}) is owed first", kind, id, k, i));
                    } else {
                        self.viol("C05", "C05.R4-unsolicited-ack", sig(&[("sent", kind.into())]), rec.index, format!("{}({}) sent but nothing it answers was received", kind, id));
                    }
                }
                None => {
                    self.viol("C05", "C05.R4-unsolicited-ack", sig(&[("sent", kind.into())]), rec.index, format!("{}({}) sent but nothing it answers was received", kind, id));
                }
            }
        }

        if let Event::Deliver(_) = rec.event {
            let c = match world.current { Some(c) => c, None => return };
            if delta.connack_accepted {
                let sp = world.conns[c].connack.as_ref().map(|k| k.session_present).unwrap_or(false);
                if !sp { self.inbound_qos2.clear(); self.inbound_qos2_unknown.clear(); }
            }
            let client_alias_max = if self.v5 { self.connect_spec.topic_alias_maximum.unwrap_or(0) } else { 0 };
            // (payload, topic, optional): optional entries may or may not be surfaced
            let mut expected_surface: Vec<(Vec<u8>, String, bool)> = Vec::new();
            let mut invalid_seen = false;
            let mut valid_prefix: Vec<(Vec<u8>, String)> = Vec::new();
            let accepted = world.conns[c].connack_step.is_some();
            let step_failed = rec.result.is_err() || rec.result.is_panic();
            let surfaced: Vec<(Vec<u8>, String)> = rec.inbound.iter().filter_map(|e| if let InboundView::Publish(p) = e { Some((p.payload.clone(), p.topic.clone())) } else { None }).collect();
            for (_, ii) in &delta.new_inbound {
                let ip = &world.conns[c].inbound[*ii];
                if !accepted { continue; }
                if self.cm(c).errored { continue; }
                match &ip.packet {
                    rf::Packet::Publish(p) => {
                        self.count("c05.inbound_publishes");
                        let mut topic = p.topic.clone();
                        if let Some(a) = p.topic_alias {
                            self.count("c17.in_alias_used");
                            if p.topic.is_empty() {
                                match self.cm(c).alias_in.get(&a) { Some(t) => topic = t.clone(), None => invalid_seen = true }
                            } else if a == 0 || a > client_alias_max {
                                invalid_seen = true;
                            } else {
                                self.cm(c).alias_in.insert(a, p.topic.clone());
                            }
                        } else if p.topic.is_empty() {
                            invalid_seen = true;
                        }
                        if invalid_seen { self.count("c17.in_invalid"); break; }
                        valid_prefix.push((p.payload.clone(), topic.clone()));
                        if step_failed {
                            // the engine stopped somewhere in this delivery: only what it surfaced is certain
                            if p.qos == 2 {
                                let id = p.packet_id.unwrap_or(0);
                                if surfaced.iter().any(|s| s.0 == p.payload) { self.inbound_qos2.insert(id); self.inbound_qos2_unknown.remove(&id); }
                                else if !self.inbound_qos2.contains(&id) { self.inbound_qos2_unknown.insert(id); }
                            }
                            continue;
                        }
                        match p.qos {
                            0 => expected_surface.push((p.payload.clone(), topic, false)),
                            1 => { expected_surface.push((p.payload.clone(), topic, false)); self.cm(c).obligations.push_back(("PUBACK", p.packet_id.unwrap_or(0))); }
                            _ => {
                                let id = p.packet_id.unwrap_or(0);
                                if self.inbound_qos2_unknown.remove(&id) {
                                    expected_surface.push((p.payload.clone(), topic, true));
                                    self.inbound_qos2.insert(id);
                                } else if self.inbound_qos2.insert(id) {
                                    expected_surface.push((p.payload.clone(), topic, false));
                                } else {
                                    self.count("c05.qos2_duplicates_suppressed");
                                }
                                self.cm(c).obligations.push_back(("PUBREC", id));
                            }
                        }
                    }
                    rf::Packet::Pubrel(a) => {
                        self.count("c05.inbound_pubrels");
                        if step_failed {
                            if self.inbound_qos2.remove(&a.packet_id) { self.inbound_qos2_unknown.insert(a.packet_id); }
                            continue;
                        }
                        self.inbound_qos2.remove(&a.packet_id);
                        self.inbound_qos2_unknown.remove(&a.packet_id);
                        self.cm(c).obligations.push_back(("PUBCOMP", a.packet_id));
                    }
                    _ => {}
                }
            }
            // match surfaced against expected, allowing optional entries to be absent
            let matches = |surfaced: &Vec<(Vec<u8>, String)>, expected: &Vec<(Vec<u8>, String, bool)>, with_topic: bool| -> bool {
                let mut si = 0;
                for (pl, tp, optional) in expected.iter() {
                    let hit = si < surfaced.len() && surfaced[si].0 == *pl && (!with_topic || surfaced[si].1 == *tp);
                    if hit { si += 1; } else if !*optional { return false; }
                }
                si == surfaced.len()
            };
            if invalid_seen {
                if !rec.result.is_err() {
                    self.viol("C17", "C17.I2-invalid-alias-accepted", sig(&[]), rec.index, "an unknown / zero / out-of-range inbound alias did not fail the connection".into());
                }
                // nothing beyond the valid prefix may be surfaced
                // surfaced must be an in-order subsequence of the publishes that precede the invalid one
                let mut pi = 0;
                let mut ok = true;
                for s in surfaced.iter() {
                    while pi < valid_prefix.len() && valid_prefix[pi] != *s { pi += 1; }
                    if pi == valid_prefix.len() { ok = false; break; }
                    pi += 1;
                }
                if !ok {
                    self.viol("C17", "C17.I3-surfaced-despite-invalid-alias", sig(&[]), rec.index, format!("surfaced {:?}", surfaced.iter().map(|s| s.1.clone()).collect::<Vec<_>>()));
                }
                self.cm(c).errored = true;
            } else if rec.result == CallResult::Ok && self.honest {
                if !matches(&surfaced, &expected_surface, true) {
                    if matches(&surfaced, &expected_surface, false) {
                        self.viol("C17", "C17.I1-surfaced-wrong-topic", sig(&[]), rec.index, format!("surfaced topics {:?} expected {:?}", surfaced.iter().map(|s| s.1.clone()).collect::<Vec<_>>(), expected_surface.iter().map(|s| s.1.clone()).collect::<Vec<_>>()));
                    } else {
                        let required = expected_surface.iter().filter(|e| !e.2).count();
                        self.viol("C05", "C05.R1-surface-mismatch", sig(&[("surfaced", surfaced.len().to_string()), ("expected", required.to_string())]), rec.index, format!("surfaced {} publishes, reference receiver expects {} (+{} undetermined)", surfaced.len(), required, expected_surface.len() - required));
                    }
                }
            }
            if rec.result.is_err() { self.cm(c).errored = true; }
        }
    }

    /* ------------------------------------------------------------------------------ C07 */
    fn expected_client_id(&self, world: &World) -> String {
        if let Some(id) = &self.connect_spec.client_id { return id.clone(); }
        world.assigned_client_id.clone().unwrap_or_default()
    }

    fn c07(&mut self, world: &World, rec: &StepRecord, delta: &Delta, ctx: &StepContext) {
        for (c, pi) in &delta.new_emitted {
            let conn = &world.conns[*c];
            let wp = &conn.emitted[*pi];
            if *pi == 0 {
                self.count("c07.connections");
                match &wp.packet {
                    rf::Packet::Connect(k) => {
                        let clean = match self.connect_spec.rejoin { 0 => self.successes_since_reset == 0, 1 => false, _ => true };
                        // the assigned id known *before* this connection's CONNACK
                        let exp = expected_connect(&self.connect_spec, self.v5, clean, &self.expected_client_id(world));
                        if *k != exp {
                            let field = if k.clean_start != exp.clean_start { "clean_start" } else if k.client_id != exp.client_id { "client_id" } else if k.keep_alive != exp.keep_alive { "keep_alive" } else if k.will != exp.will { "will" } else if k.username != exp.username || k.password != exp.password { "credentials" } else { "properties" };
                            self.viol("C07", "C07.R2-connect-content", sig(&[("field", field.into())]), rec.index, format!("CONNECT {:?} expected {:?}", k, exp));
                        }
                    }
                    other => {
                        self.viol("C07", "C07.R1-first-packet-not-connect", sig(&[("packet", other.kind().into())]), rec.index, format!("first packet of connection {} is {}", c, other.kind()));
                    }
                }
            } else {
                if let rf::Packet::Connect(_) = &wp.packet {
                    self.viol("C07", "C07.R1b-second-connect", sig(&[]), rec.index, format!("second CONNECT on connection {}", c));
                }
                if conn.connack_step.map(|s| s >= rec.index).unwrap_or(true) {
                    self.viol("C07", "C07.R3-packet-before-connack", sig(&[("packet", wp.packet.kind().into())]), rec.index, format!("{} sent before a successful CONNACK was processed", wp.packet.kind()));
                }
            }
            if let Some(ds) = conn.disconnect_emitted_at {
                let is_disc = matches!(wp.packet, rf::Packet::Disconnect(_));
                if !is_disc && ds <= rec.index {
                    let after = conn.emitted.iter().position(|w| matches!(w.packet, rf::Packet::Disconnect(_))).map(|p| *pi > p).unwrap_or(false);
                    if after {
                        self.viol("C07", "C07.R4-bytes-after-disconnect", sig(&[("packet", wp.packet.kind().into())]), rec.index, format!("{} sent after DISCONNECT", wp.packet.kind()));
                    }
                }
            }
        }
        // partial bytes after a complete DISCONNECT
        if let (Event::Service, Some(c)) = (&rec.event, world.current) {
            let conn = &world.conns[c];
            if let Some(p) = conn.emitted.iter().position(|w| matches!(w.packet, rf::Packet::Disconnect(_))) {
                let end = conn.emitted[p].end;
                if conn.emitted_bytes > end && p == conn.emitted.len() - 1 {
                    self.viol("C07", "C07.R4-bytes-after-disconnect", sig(&[("packet", "partial".into())]), rec.index, "bytes emitted after a complete DISCONNECT".into());
                }
            }
        }

        if let Event::Deliver(_) = rec.event {
            let c = match world.current { Some(c) => c, None => return };
            let conn = &world.conns[c];
            let became_connected = delta.connack_accepted;
            if rec.state_before == EngineState::PendingConnack {
                let first = delta.new_inbound.first().map(|(_, ii)| &conn.inbound[*ii].packet);
                if let Some(p) = first {
                    self.count("c07.handshake_replies");
                    match p {
                        rf::Packet::Connack(k) if k.reason == 0 => {
                            let connect_written = conn.emitted.first().map(|w| w.written_step.is_some() && matches!(w.packet, rf::Packet::Connect(_))).unwrap_or(false);
                            if !connect_written {
                                self.count("c07.early_connacks");
                                if became_connected {
                                    let emitted_complete = conn.emitted.first().is_some();
                                    self.viol("C07", "C07.R9-connack-before-connect-flushed", sig(&[("connect_fully_emitted", emitted_complete.to_string())]), rec.index, "a CONNACK that arrived before the CONNECT was flushed was accepted".into());
                                }
                            } else if !became_connected && self.honest {
                                self.viol("C07", "C07.R10-good-connack-rejected", sig(&[("result", format!("{:?}", rec.result))]), rec.index, "a successful CONNACK did not establish the connection".into());
                            }
                        }
                        rf::Packet::Connack(_) => {
                            if became_connected || !rec.result.is_err() {
                                self.viol("C07", "C07.R5-failing-connack-accepted", sig(&[]), rec.index, "failing CONNACK did not produce a connection error".into());
                            }
                        }
                        other => {
                            if became_connected || !rec.result.is_err() {
                                self.viol("C07", "C07.R7-other-packet-before-connack", sig(&[("packet", other.kind().into())]), rec.index, format!("{} before CONNACK did not produce a connection error", other.kind()));
                            }
                        }
                    }
                }
            } else if rec.state_before == EngineState::Connected {
                let second = delta.new_inbound.iter().any(|(_, ii)| matches!(conn.inbound[*ii].packet, rf::Packet::Connack(_)));
                if second && !rec.result.is_err() {
                    self.viol("C07", "C07.R6-second-connack-accepted", sig(&[]), rec.index, "a repeated CONNACK did not produce a connection error".into());
                }
            }
            if delta.connack_accepted {
                if let (Some(k), Some(s)) = (&conn.connack, &ctx.settings_after) {
                    self.count("c07.negotiated_settings_checked");
                    let cs = &self.connect_spec;
                    let exp_client_id = k.assigned_client_id.clone().or(cs.client_id.clone()).or(world.assigned_client_id.clone()).unwrap_or_default();
                    let mut diffs = Vec::new();
                    if s.maximum_qos as u8 != k.maximum_qos.unwrap_or(2) { diffs.push("maximum_qos"); }
                    if s.session_expiry_interval != k.session_expiry.unwrap_or(cs.session_expiry.unwrap_or(0)) { diffs.push("session_expiry_interval"); }
                    if s.receive_maximum_from_server != k.receive_maximum.unwrap_or(65535) { diffs.push("receive_maximum"); }
                    if s.maximum_packet_size_to_server != k.maximum_packet_size.unwrap_or(268_435_455) { diffs.push("maximum_packet_size"); }
                    if s.topic_alias_maximum_to_server != k.topic_alias_maximum.unwrap_or(0) { diffs.push("topic_alias_maximum"); }
                    if s.server_keep_alive != k.server_keep_alive.unwrap_or(cs.keep_alive.unwrap_or(0)) { diffs.push("server_keep_alive"); }
                    if s.retain_available != (k.retain_available.unwrap_or(1) == 1) { diffs.push("retain_available"); }
                    if s.wildcard_subscriptions_available != (k.wildcard_available.unwrap_or(1) == 1) { diffs.push("wildcard_subscriptions_available"); }
                    if s.subscription_identifiers_available != (k.subscription_ids_available.unwrap_or(1) == 1) { diffs.push("subscription_identifiers_available"); }
                    if s.shared_subscriptions_available != (k.shared_available.unwrap_or(1) == 1) { diffs.push("shared_subscriptions_available"); }
                    if s.rejoined_session != k.session_present { diffs.push("rejoined_session"); }
                    if s.client_id != exp_client_id { diffs.push("client_id"); }
                    if !diffs.is_empty() {
                        self.viol("C07", "C07.R11-negotiated-settings", sig(&[("fields", diffs.join(","))]), rec.index, format!("negotiated settings differ from merge(CONNACK, CONNECT, defaults) in {}", diffs.join(",")));
                    }
                }
            }
        }
        // establishment deadline
        if let (Event::Service, Some(c)) = (&rec.event, world.current) {
            let conn = &world.conns[c];
            if rec.state_before == EngineState::PendingConnack && rec.time_ms >= conn.deadline_ms {
                self.count("c07.deadline_services");
                if !rec.result.is_err() {
                    self.viol("C07", "C07.R8-no-error-at-establishment-deadline", sig(&[]), rec.index, format!("service at {} ms, deadline {} ms, no error", rec.time_ms, conn.deadline_ms));
                }
            }
        }
    }

    /* ------------------------------------------------------------------------------ C08 */
    fn c08(&mut self, world: &World, rec: &StepRecord, _delta: &Delta) {
        if let Event::Service = rec.event {
            if world.current.is_none() { return; }
            let visible = !rec.emitted.is_empty() || !rec.completions.is_empty() || rec.state_after != rec.state_before || rec.result.is_err();
            if let Some((pt, pns, pidx)) = self.prev {
                if pt == rec.time_ms && pidx + 1 == rec.index {
                    let not_due = pns.map(|t| t > rec.time_ms).unwrap_or(true);
                    let active = matches!(rec.state_before, EngineState::PendingConnack | EngineState::Connected | EngineState::PendingDisconnect);
                    if active {
                        if not_due {
                            self.count("c08.audited_services");
                            if visible {
                                let what = if rec.result.is_err() { "error" } else if !rec.emitted.is_empty() { "bytes" } else if !rec.completions.is_empty() { "completion" } else { "state" };
                                let half = rec.current_op_before;
                                self.viol("C08", "C08.R1-work-without-reported-time", sig(&[("effect", what.into()), ("half_encoded_operation", half.to_string()), ("reported", if pns.is_none() { "never".into() } else { "later".to_string() })]), rec.index,
                                    format!("engine reported next service {:?} at {} ms but a service call then produced {}", pns, rec.time_ms, what));
                            }
                        } else {
                            // due: must do something, otherwise it spins
                            if !visible && rec.next_service_ms.map(|t| t <= rec.time_ms).unwrap_or(false) {
                                self.spin_run += 1;
                                if self.spin_run >= 3 {
                                    self.viol("C08", "C08.R3-idle-spin", sig(&[("state", format!("{:?}", rec.state_after))]), rec.index, format!("{} consecutive due services at {} ms without any effect", self.spin_run, rec.time_ms));
                                }
                            } else {
                                self.spin_run = 0;
                            }
                        }
                    }
                }
            }
        } else if !matches!(rec.event, Event::Write(_)) {
            self.spin_run = 0;
        }
    }

    fn half_before(&self, world: &World, rec: &StepRecord) -> bool {
        // was an operation half encoded before this service call?  (pending bytes of an incomplete packet)
        let c = world.conns.len() - 1;
        let conn = &world.conns[c];
        let before = conn.emitted_bytes - rec.emitted.len();
        // packets complete before this step end at <= before; if the last complete packet ended before `before`, bytes were pending
        let last_end_before = conn.emitted.iter().filter(|w| w.emitted_step < rec.index).map(|w| w.end).max().unwrap_or(0);
        last_end_before < before
    }

    /* ------------------------------------------------------------------------------ C11 */
    fn c11_rules(&mut self, world: &World, rec: &StepRecord, delta: &Delta) {
        // R2: after an error on a connection the engine stays halted until the close
        if let Some(c) = world.current {
            let conn = &world.conns[c];
            if let Some((es, _, _)) = &conn.first_error {
                if *es < rec.index {
                    match rec.event {
                        Event::Service | Event::Deliver(_) | Event::WriteComplete => {
                            self.count("c11.post_error_probes");
                            if !rec.emitted.is_empty() {
                                self.viol("C11", "C11.R2-output-after-error", sig(&[]), rec.index, "bytes emitted after a connection error".into());
                            }
                            if !rec.result.is_err() && !rec.result.is_panic() {
                                self.viol("C11", "C11.R2-accepted-after-error", sig(&[("event", rec.event.kind().into())]), rec.index, format!("{} accepted after a connection error", rec.event.kind()));
                            }
                        }
                        _ => {}
                    }
                }
            }
        }
        if let Event::Deliver(_) = rec.event {
            if rec.state_before == EngineState::PendingDisconnect {
                for (c, ii) in &delta.new_inbound {
                    match &world.conns[*c].inbound[*ii].packet {
                        rf::Packet::Pingresp => self.count("c11.pingresp_while_disconnect_pending"),
                        rf::Packet::Puback(_) | rf::Packet::Pubrec(_) | rf::Packet::Pubcomp(_) | rf::Packet::Suback(_) | rf::Packet::Unsuback(_) => self.count("c11.ack_while_disconnect_pending"),
                        _ => {}
                    }
                }
            }
        }
        // R4: an honest broker is never accused
        if self.honest {
            if let (Event::Deliver(_), CallResult::Err(kind, text)) = (&rec.event, &rec.result) {
                if matches!(kind.as_str(), "ProtocolError" | "DecodingFailure" | "PacketValidationFailure" | "InvalidInboundTopicAlias" | "Unimplemented" | "InternalStateError") {
                    let c = world.conns.len().saturating_sub(1);
                    let conn = &world.conns[c];
                    if conn.first_error.as_ref().map(|(s, _, _)| *s == rec.index).unwrap_or(false) {
                        // classify the cause
                        let mut cause = "unknown".to_string();
                        let lower = text.to_lowercase();
                        let mut accused = "?".to_string();
                        for (needle, kind) in [("unsuback", "UNSUBACK"), ("suback", "SUBACK"), ("puback", "PUBACK"), ("pubrec", "PUBREC"), ("pubcomp", "PUBCOMP"), ("pubrel", "PUBREL"), ("connack", "CONNACK"), ("connect", "CONNACK"), ("pingresp", "PINGRESP"), ("disconnect", "DISCONNECT"), ("publish", "PUBLISH"), ("auth", "AUTH")] {
                            if lower.contains(needle) { accused = kind.to_string(); break; }
                        }
                        for (_, ii) in &delta.new_inbound {
                            let p = &conn.inbound[*ii].packet;
                            if p.kind() != accused { continue; }
                            let id = match p { rf::Packet::Puback(a) | rf::Packet::Pubrec(a) | rf::Packet::Pubcomp(a) => Some(a.packet_id), rf::Packet::Suback(a) => Some(a.packet_id), rf::Packet::Unsuback(a) => Some(a.packet_id), _ => None };
                            if let Some(id) = id {
                                for op in &world.ops {
                                    if op.appearances.iter().any(|a| a.conn == c && a.packet_id == id) {
                                        if let Some((_, _, o)) = op.completions.first() {
                                            if let Some(k) = o.err_kind() { cause = format!("answers-op-resolved-by-{}", k); }
                                        }
                                    }
                                }
                            }
                            if let rf::Packet::Unsuback(u) = p { if u.codes.contains(&0x8F) && lower.contains("reason code") { cause = "unsuback-reason-0x8f".into(); } }
                        }
                        if conn.inbound_decoder.error.is_some() { cause = format!("harness-could-not-frame:{}", conn.inbound_decoder.error.clone().unwrap_or_default()); }
                        let mut norm = String::new();
                        for ch in text.chars() { if ch.is_ascii_digit() { if !norm.ends_with('#') { norm.push('#'); } } else { norm.push(ch); } }
                        self.viol("C11", "C11.R4-honest-broker-accused", sig(&[("error_kind", kind.clone()), ("cause", cause), ("accused_packet", accused), ("text", norm)]), rec.index, format!("a protocol-conformant server was reported as violating the protocol: {} {}", kind, text));
                    }
                }
            }
        }
    }

    /* ------------------------------------------------------------------------------ C14 */
    fn keep_alive_k(&self, conn: &ConnInfo) -> Option<u64> {
        let k = conn.connack.as_ref()?;
        Some(k.server_keep_alive.unwrap_or(self.connect_spec.keep_alive.unwrap_or(0)) as u64)
    }

    fn c14(&mut self, world: &World, rec: &StepRecord, delta: &Delta) {
        if !self.keepalive_mode || !self.honest { return; }
        let c = match world.current.or_else(|| if let Event::Close = rec.event { Some(world.conns.len() - 1) } else { None }) { Some(c) => c, None => return };
        let conn = &world.conns[c];
        let k = match self.keep_alive_k(conn) { Some(k) => k, None => return };
        if self.cm(c).errored { return; }
        if delta.connack_accepted {
            self.cm(c).last_tx_ms = Some(rec.time_ms);
        }
        // ping deadline
        let ping_deadline = |since: u64, ptm: u64, pmax: bool| -> u64 {
            let half = k * 500; // K/2 seconds in ms, as a real number
            let pt = if pmax { u64::MAX } else { ptm };
            since + pt.min(half)
        };
        let is_keepalive_error = |r: &CallResult| -> bool { if let CallResult::Err(kind, text) = r { kind == "ConnectionClosed" && text.contains("keep alive") } else { false } };

        // gap rule, evaluated whenever time has moved or something is emitted
        if k > 0 {
            if let Some(last) = self.cm(c).last_tx_ms {
                let healthy = conn.first_error.is_none();
                if healthy && rec.time_ms > last + k * 1000 && matches!(rec.event, Event::Service | Event::Close) {
                    // the gap is only a violation if nothing was emitted at or before last + K
                    let emitted_now = delta.new_emitted.iter().any(|(cc, _)| *cc == c);
                    if !emitted_now || rec.time_ms > last + k * 1000 {
                        self.viol("C14", "C14.R1-silence-longer-than-keep-alive", sig(&[("k", k.to_string())]), rec.index, format!("{} ms since the last transmission at {} ms, keep alive {} s", rec.time_ms - last, last, k));
                        self.cm(c).last_tx_ms = Some(rec.time_ms);
                    }
                }
            }
        }
        for (cc, pi) in &delta.new_emitted {
            if *cc != c { continue; }
            let wp = &conn.emitted[*pi];
            if conn.connack_step.map(|s| s < rec.index).unwrap_or(false) {
                self.cm(c).last_tx_ms = Some(rec.time_ms);
            }
            if let rf::Packet::Pingreq = wp.packet {
                self.count("c14.pings_seen");
                if k == 0 {
                    self.viol("C14", "C14.R4-ping-with-keep-alive-zero", sig(&[]), rec.index, "PINGREQ sent although the negotiated keep alive is 0".into());
                }
                if self.cm(c).ping_outstanding_since.is_none() { self.cm(c).ping_outstanding_since = Some(rec.time_ms); }
            }
        }
        for (cc, ii) in &delta.new_inbound {
            if *cc != c { continue; }
            if let rf::Packet::Pingresp = conn.inbound[*ii].packet {
                if let Some(since) = self.cm(c).ping_outstanding_since {
                    let d = ping_deadline(since, self.ping_timeout_ms, self.ping_timeout_max);
                    if rec.time_ms < d { self.count("c14.pingresp_before_deadline"); }
                }
                self.cm(c).ping_outstanding_since = None;
            }
        }
        if let Event::Service = rec.event {
            let outstanding = self.cm(c).ping_outstanding_since;
            if is_keepalive_error(&rec.result) {
                self.count("c14.keepalive_timeouts");
                match outstanding {
                    None => {
                        self.viol("C14", "C14.R3-live-peer-timed-out", sig(&[("k", k.to_string())]), rec.index, "keep-alive failure although every PINGREQ had been answered".into());
                    }
                    Some(since) => {
                        let d = ping_deadline(since, self.ping_timeout_ms, self.ping_timeout_max);
                        if rec.time_ms < d {
                            self.viol("C14", "C14.R2a-timeout-before-deadline", sig(&[("k_odd", (k % 2 == 1).to_string()), ("k_is_one", (k == 1).to_string())]), rec.index, format!("keep-alive failure at {} ms, PINGREQ at {} ms, deadline {} ms (K={} s, ping timeout {} ms)", rec.time_ms, since, d, k, self.ping_timeout_ms));
                        }
                    }
                }
                if k == 0 {
                    self.viol("C14", "C14.R4-timeout-with-keep-alive-zero", sig(&[]), rec.index, "keep-alive failure although the negotiated keep alive is 0".into());
                }
                self.cm(c).errored = true;
            } else if rec.result == CallResult::Ok {
                if let Some(since) = outstanding {
                    // the ping may have been emitted in this very step
                    let d = ping_deadline(since, self.ping_timeout_ms, self.ping_timeout_max);
                    if rec.time_ms >= d && since < rec.time_ms {
                        self.viol("C14", "C14.R2b-dead-peer-not-detected", sig(&[]), rec.index, format!("service at {} ms, unanswered PINGREQ from {} ms, deadline {} ms, no failure", rec.time_ms, since, d));
                        self.cm(c).ping_outstanding_since = None;
                    }
                }
            } else if rec.result.is_err() {
                self.cm(c).errored = true;
            }
        }
        if rec.result.is_err() { self.cm(c).errored = true; }
    }

    /* ------------------------------------------------------------------------------ C15 */
    fn c15(&mut self, world: &World, rec: &StepRecord, delta: &Delta) {
        const E: &str = "OfflineQueuePolicyFailed";
        let policy = self.policy;
        let no_session_connack = delta.connack_accepted && world.current.and_then(|c| world.conns[c].connack.as_ref()).map(|k| !k.session_present).unwrap_or(false);
        for (tag, outcome) in &rec.completions {
            if outcome.err_kind() != Some(E) { continue; }
            let op = match world.op(*tag) { Some(o) => o, None => continue };
            self.count("c15.policy_failures");
            if policy_preserves(policy, op.kind) {
                self.viol("C15", "C15.R2-preserved-kind-failed", sig(&[("policy", policy_name(policy).into()), ("kind", op.kind.name().into()), ("event", rec.event.kind().into())]), rec.index, format!("op {} ({}) failed by offline policy {} which preserves it", tag, op.kind.name(), policy_name(policy)));
            } else {
                let own_submit = matches!(&rec.event, Event::Submit(o) if o.tag == *tag) && rec.state_before != EngineState::Connected;
                let at_close = matches!(rec.event, Event::Close);
                if !(own_submit || at_close || no_session_connack) {
                    self.viol("C15", "C15.R3-policy-failure-at-wrong-moment", sig(&[("event", rec.event.kind().into()), ("kind", op.kind.name().into())]), rec.index, format!("op {} failed by offline policy during {}", tag, rec.event.kind()));
                }
            }
        }
        match &rec.event {
            Event::Submit(o) => {
                if let Some(op) = world.op(o.tag) {
                    if op.rejected_at_submit.is_some() { return; }
                    let failed_now = rec.completions.iter().any(|(t, oc)| *t == o.tag && oc.err_kind() == Some(E));
                    if rec.state_before != EngineState::Connected {
                        self.count("c15.offline_submissions");
                        if !policy_preserves(policy, op.kind) && !failed_now {
                            self.viol("C15", "C15.R1-rejected-kind-accepted-offline", sig(&[("policy", policy_name(policy).into()), ("kind", op.kind.name().into()), ("state", format!("{:?}", rec.state_before))]), rec.index, format!("op {} ({}) submitted in state {:?} was not failed by policy {}", o.tag, op.kind.name(), rec.state_before, policy_name(policy)));
                        }
                    } else if failed_now {
                        self.viol("C15", "C15.R3-policy-failure-at-wrong-moment", sig(&[("event", "submit-while-connected".into()), ("kind", op.kind.name().into())]), rec.index, format!("op {} failed by offline policy although connected", o.tag));
                    }
                }
            }
            Event::Close => {
                let c = world.conns.len() - 1;
                for op in world.ops.iter().skip(self.min_unresolved) {
                    if op.rejected_at_submit.is_some() || op.resolved_before(rec.index) { continue; }
                    if policy_preserves(policy, op.kind) { continue; }
                    let in_flight = matches!(op.kind, OpKind::Pub1 | OpKind::Pub2) && op.live_appearances().any(|a| a.kind == WireKind::Publish);
                    if in_flight { self.count("c15.in_flight_retained"); continue; }
                    self.count("c15.rejected_at_close");
                    let done_now = rec.completions.iter().any(|(t, _)| *t == op.tag);
                    if !done_now {
                        let pos = if op.appearances.iter().any(|a| a.conn == c) { "sent-unacknowledged" } else { "queued-or-partial" };
                        self.viol("C15", "C15.R4-rejected-kind-survived-disconnection", sig(&[("policy", policy_name(policy).into()), ("kind", op.kind.name().into()), ("position", pos.into())]), rec.index, format!("op {} ({}) survived the disconnection under policy {}", op.tag, op.kind.name(), policy_name(policy)));
                    }
                }
            }
            Event::Deliver(_) if no_session_connack => {
                for op in world.ops.iter().skip(self.min_unresolved) {
                    if op.rejected_at_submit.is_some() || op.resolved_before(rec.index) { continue; }
                    if policy_preserves(policy, op.kind) { continue; }
                    self.count("c15.no_session_policy_applied");
                    let done_now = rec.completions.iter().any(|(t, _)| *t == op.tag);
                    if !done_now {
                        self.viol("C15", "C15.R5-in-flight-not-failed-on-lost-session", sig(&[("policy", policy_name(policy).into()), ("kind", op.kind.name().into())]), rec.index, format!("op {} retained in flight was not failed when the server reported no session", op.tag));
                    }
                }
            }
            _ => {}
        }
    }

    /* ------------------------------------------------------------------------------ C18 */
    fn c18(&mut self, world: &World, rec: &StepRecord, delta: &Delta) {
        // arm timeouts on first complete emission of an operation's packet per connection
        for (c, pi) in &delta.new_emitted {
            let wp = &world.conns[*c].emitted[*pi];
            if let Some(tag) = wp.tag {
                if let Some(op) = world.op(tag) {
                    if !op.kind.needs_ack() { continue; }
                    if let Some(t) = op.spec.ack_timeout_ms {
                        let first = op.appearances.iter().filter(|a| a.conn == *c).count() == 1;
                        if first { self.cm(*c).armed.push((rec.time_ms.saturating_add(t), tag)); self.count("c18.timeouts_armed"); }
                    }
                }
            }
        }
        for (tag, outcome) in &rec.completions {
            let op = match world.op(*tag) { Some(o) => o, None => continue };
            match outcome.err_kind() {
                Some("AckTimeout") => {
                    self.count("c18.ack_timeouts_fired");
                    let c = world.conns.len().saturating_sub(1);
                    let w = op.appearances.iter().filter(|a| a.conn == c).map(|a| a.emitted_time).min();
                    let mut why: Option<String> = None;
                    if !matches!(rec.event, Event::Service) { why = Some("outside-service".into()); }
                    else if op.spec.ack_timeout_ms.is_none() { why = Some("no-timeout-configured".into()); }
                    else if w.is_none() { why = Some("never-written-on-this-connection".into()); }
                    else if rec.time_ms < w.unwrap() + op.spec.ack_timeout_ms.unwrap() { why = Some("before-deadline".into()); }
                    else if op.acks.iter().any(|a| a.conn == c && a.step < rec.index && (a.kind == "PUBACK" || a.kind == "PUBCOMP" || a.kind == "SUBACK" || a.kind == "UNSUBACK" || (a.kind == "PUBREC" && a.reason >= 0x80))) { why = Some("after-acknowledgement".into()); }
                    if let Some(w) = why {
                        self.viol("C18", "C18.R1-ack-timeout-wrong", sig(&[("why", w.clone()), ("kind", op.kind.name().into())]), rec.index, format!("op {} failed with AckTimeout {}", tag, w));
                    }
                }
                Some("MaxInterruptedRetriesExceeded") => {
                    self.count("c18.retry_limit_fired");
                    let mut why: Option<String> = None;
                    match self.max_retries {
                        None => why = Some("no-limit-configured".into()),
                        Some(n) => {
                            if !matches!(rec.event, Event::Close) { why = Some("outside-disconnection".into()); }
                            else if op.interruptions != n + 1 { why = Some(format!("interruption-count-{}-limit-{}", if op.interruptions <= n { "below" } else { "above" }, "n")); }
                        }
                    }
                    if let Some(w) = why {
                        self.viol("C18", "C18.R3-retry-limit-wrong", sig(&[("why", w.clone())]), rec.index, format!("op {} failed with MaxInterruptedRetriesExceeded: {} (interruptions {}, limit {:?})", tag, w, op.interruptions, self.max_retries));
                    }
                }
                _ => {}
            }
        }
        if let Event::Close = rec.event {
            if let Some(n) = self.max_retries {
                for op in world.ops.iter().skip(self.min_unresolved) {
                    if !op.kind.needs_ack() || op.resolved_before(rec.index) { continue; }
                    if op.interruptions == n + 1 {
                        let c = world.conns.len() - 1;
                        if !op.appearances.iter().any(|a| a.conn == c) { continue; }
                        self.count("c18.retry_limit_due");
                        let ok = rec.completions.iter().any(|(t, o)| *t == op.tag && o.err_kind() == Some("MaxInterruptedRetriesExceeded"));
                        if !ok {
                            self.viol("C18", "C18.R4-retry-limit-missed", sig(&[("kind", op.kind.name().into())]), rec.index, format!("op {} interrupted for the {}-th time (limit {}) but not failed", op.tag, op.interruptions, n));
                        }
                    }
                }
            }
        }
        if let (Event::Service, Some(c)) = (&rec.event, world.current) {
            if rec.result == CallResult::Ok && matches!(rec.state_after, EngineState::Connected | EngineState::PendingDisconnect) && matches!(rec.state_before, EngineState::Connected | EngineState::PendingDisconnect) {
                let now = rec.time_ms;
                let armed: Vec<(u64, u64)> = self.cm(c).armed.iter().copied().filter(|(d, _)| *d <= now).collect();
                for (d, tag) in armed {
                    if let Some(op) = world.op(tag) {
                        // armed in this very step does not count (deadline == now only when T == 0)
                        if !op.resolved() {
                            let armed_now = op.appearances.iter().filter(|a| a.conn == c).map(|a| a.emitted_step).min() == Some(rec.index);
                            if !armed_now || d < now {
                                self.viol("C18", "C18.R2-ack-timeout-missed", sig(&[("kind", op.kind.name().into())]), rec.index, format!("op {} deadline {} ms passed at service {} ms without AckTimeout", tag, d, now));
                            }
                        }
                    }
                }
                self.cm(c).armed.retain(|(d, _)| *d > now);
            }
        }
    }

    /* ------------------------------------------------------------------------------ C16 (completions) */
    fn c16_completions(&mut self, world: &World, rec: &StepRecord) {
        // static rules at submission
        if let Event::Submit(o) = &rec.event {
            let v = static_op(o);
            match (&v, &rec.result) {
                (Verdict::MustReject(rule), r) => {
                    self.count("c16.static_mustreject");
                    if !matches!(r, CallResult::Rejected(_, _)) {
                        self.viol("C16", "C16.S1-static-rule-not-applied-at-submission", sig(&[("rule", rule.to_string())]), rec.index, format!("op {} violates {} but was accepted at submission", o.tag, rule));
                    }
                }
                (Verdict::MustAccept, CallResult::Rejected(k, t)) => {
                    self.viol("C16", "C16.S2-valid-operation-rejected", sig(&[("error", k.clone())]), rec.index, format!("op {} satisfies all static rules but was rejected: {}", o.tag, t));
                }
                _ => {}
            }
        }
        for (tag, outcome) in &rec.completions {
            if outcome.err_kind() != Some("PacketValidationFailure") { continue; }
            let op = match world.op(*tag) { Some(o) => o, None => continue };
            self.count("c16.send_time_rejections");
            // justified iff the current connection's capabilities forbid it
            let c = match world.current { Some(c) => c, None => continue };
            let k = match &world.conns[c].connack { Some(k) => k, None => continue };
            let caps = caps_from_connack(k);
            if static_op(&op.spec) != Verdict::MustAccept { continue; }
            let justified = match &op.spec.body {
                OpBody::Publish(p) => {
                    // size with and without the topic (an alias may elide it)
                    let mut exp = expected_publish(p, self.v5);
                    exp.packet_id = if p.qos > 0 { Some(1) } else { None };
                    let len = rf::encode(&rf::Packet::Publish(exp.clone()), self.v5, &rf::Knobs::default()).len();
                    let over = self.v5 && (len + 3) as u64 > caps.maximum_packet_size as u64;
                    p.qos > caps.maximum_qos || (p.retain && !caps.retain_available) || over
                }
                OpBody::Subscribe(s) => {
                    let mut exp = expected_subscribe(s, self.v5);
                    exp.packet_id = 1;
                    let pk = rf::Packet::Subscribe(exp);
                    let len = rf::encode(&pk, self.v5, &rf::Knobs::default()).len();
                    !matches!(wire_against_caps(&pk, len + 3, &caps, self.v5), Verdict::MustAccept)
                }
                OpBody::Unsubscribe(u) => {
                    let mut exp = expected_unsubscribe(u, self.v5);
                    exp.packet_id = 1;
                    let pk = rf::Packet::Unsubscribe(exp);
                    let len = rf::encode(&pk, self.v5, &rf::Knobs::default()).len();
                    !matches!(wire_against_caps(&pk, len, &caps, self.v5), Verdict::MustAccept)
                }
            };
            if !justified {
                self.viol("C16", "C16.W2-valid-operation-failed-validation", sig(&[("kind", op.kind.name().into())]), rec.index, format!("op {} satisfies the announced limits but failed validation: {:?}", tag, outcome));
            }
        }
    }

    /* ------------------------------------------------------------------------------ end of run */
    pub fn on_end(&mut self, world: &World, quiescent: bool, _final_snapshot: Option<&Snapshot>) {
        for e in &world.harness_errors {
            self.viol("HARNESS", "HARNESS.bookkeeping", sig(&[]), world.steps, e.clone());
        }
        let _ = quiescent;
    }

    /// C06: every unresolved operation that is in flight on the current connection must have its
    /// packet id reserved in the engine's allocation table
    fn c06_reservation(&mut self, world: &World, c: usize, snapshot: &Snapshot, step: usize, when: &'static str) {
        if self.blind { return; }
        let reserved: HashSet<u16> = snapshot.allocated_packet_id_list.iter().copied().collect();
        for op in world.ops.iter().skip(self.min_unresolved) {
            if !op.kind.needs_ack() || op.resolved_before(step) { continue; }
            if let Some(a) = op.appearances.iter().rev().find(|a| a.conn == c && a.kind != WireKind::Pubrel) {
                self.count("c06.reservations_checked");
                if !reserved.contains(&a.packet_id) {
                    let restarted = op.restart_conn == Some(c) && op.appearances.iter().any(|x| x.conn < c);
                    self.viol("C06", "C06.R5-in-flight-id-not-reserved", sig(&[("kind", op.kind.name().into()), ("restarted_after_lost_session", restarted.to_string()), ("when", when.into())]), step, format!("op {} is in flight with packet id {} but that id is not reserved ({} ids reserved): the allocator may hand it to another operation", op.tag, a.packet_id, reserved.len()));
                    return;
                }
            }
        }
    }

    /// called by the simulator at quiescence (before the final close) with the live snapshot
    pub fn on_quiescence(&mut self, world: &World, snapshot: &Snapshot, next_service: Option<u64>, now: u64, stop_requested: bool) {
        let c = match world.current { Some(c) => c, None => return };
        let conn = &world.conns[c];
        if conn.connack.is_none() || conn.first_error.is_some() { return; }
        // C01: an accepted operation that is unresolved but sits in none of the engine's queues or
        // tables can never be sent or acknowledged any more: it has been silently dropped (only a
        // reset would ever resolve it).  Independent of how the broker behaves.
        {
            self.count("c01.quiescent_structure_checks");
            let tracked_somewhere = snapshot.user_queue + snapshot.resubmit_queue + snapshot.high_priority_queue + snapshot.pending_publish + snapshot.pending_non_publish + snapshot.pending_write_completion_operations + if snapshot.current_operation.is_some() { 1 } else { 0 };
            let unresolved: Vec<&OpInfo> = world.ops.iter().filter(|o| !o.resolved()).collect();
            if tracked_somewhere == 0 && !unresolved.is_empty() {
                let o = unresolved[0];
                let was_retransmission = o.live_appearances().any(|a| a.conn < c);
                self.viol("C01", "C01.R6-silently-dropped", sig(&[("kind", o.kind.name().into()), ("had_been_transmitted_before", was_retransmission.to_string())]), world.steps, format!("op {} ({}) is unresolved but the engine holds it in no queue or table (operations map {}, reserved ids {}): it can never complete", o.tag, o.kind.name(), snapshot.operations, snapshot.allocated_packet_ids));
            }
        }
        self.c06_reservation(world, c, snapshot, world.steps, "quiescence");
        if !self.responsive || stop_requested { return; }
        self.count("c08.quiescent_points");
        // every retained operation must be resolved
        let unresolved: Vec<&OpInfo> = world.ops.iter().filter(|o| !o.resolved()).collect();
        if !unresolved.is_empty() {
            let o = unresolved[0];
            let half = snapshot.current_operation.is_some();
            let pend = conn.emitted_decoder.pending() > 0;
            self.viol("C08", "C08.R2-stuck-at-quiescence", sig(&[("half_encoded_operation", (half || pend).to_string()), ("reported", if next_service.is_none() { "never".into() } else { "later".to_string() })]), world.steps,
                format!("{} operations unresolved at quiescence (first: op {} {}), next service {:?}, now {} ms, snapshot {:?}", unresolved.len(), o.tag, o.kind.name(), next_service, now, snapshot));
            for o in &unresolved {
                if policy_preserves(self.policy, o.kind) {
                    self.viol("C15", "C15.R7-preserved-operation-not-sent", sig(&[("kind", o.kind.name().into())]), world.steps, format!("op {} preserved by policy but still unresolved at quiescence", o.tag));
                    break;
                }
            }
        } else {
            self.count("c06.quiescent_all_resolved");
            if snapshot.allocated_packet_ids != 0 {
                self.viol("C06", "C06.R4-id-leak", sig(&[]), world.steps, format!("{} packet ids still reserved although every operation is resolved", snapshot.allocated_packet_ids));
            }
        }
        if !self.cm(c).obligations.is_empty() {
            let n = self.cm(c).obligations.len();
            let owed: String = self.cm(c).obligations.front().map(|o| o.0).unwrap_or("").into();
            self.viol("C05", "C05.R2-ack-never-sent", sig(&[("owed", owed)]), world.steps, format!("{} acknowledgements still owed at quiescence", n));
        }
        // QoS2: PUBREL owed
        for op in world.ops.iter().filter(|o| o.kind == OpKind::Pub2 && !o.resolved() && o.pubrec_received) {
            if !op.appearances.iter().any(|a| a.conn == c && a.kind == WireKind::Pubrel) {
                self.viol("C04", "C04.R4b-pubrel-never-sent", sig(&[]), world.steps, format!("op {}: PUBREC received but no PUBREL on connection {}", op.tag, c));
            }
        }
    }
}
