//! placeholder: replay dispatch for non-simulation checks
use serde_json::Value;

pub fn replay_other(kind: &str, _doc: &Value, _path: &str) -> i32 {
    println!("replay kind {} is not supported yet", kind);
    2
}
