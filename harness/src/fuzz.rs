//! Generic parallel case runner for the input-space checks (codec, validation, back-off, AWS).

use crate::report::*;
use crate::rng::Rng;
use serde_json::{json, Map, Value};
use std::collections::{BTreeMap, HashSet};
use std::sync::{Arc, Mutex};
use std::time::Instant;

#[derive(Default)]
pub struct Local {
    pub evaluations: usize,
    pub counters: BTreeMap<&'static str, usize>,
    pub nontrivial: HashSet<u64>,
    pub samples: Vec<Value>,
    pub found: Vec<(String, BTreeMap<String, String>, String, Value)>,
    pub unspecified: BTreeMap<String, usize>,
}

impl Local {
    pub fn count(&mut self, k: &'static str) { *self.counters.entry(k).or_insert(0) += 1; }
    pub fn add(&mut self, k: &'static str, n: usize) { *self.counters.entry(k).or_insert(0) += n; }
    pub fn nontrivial(&mut self, h: u64) { self.nontrivial.insert(h); }
    pub fn sample(&mut self, v: Value) { if self.samples.len() < 3 { self.samples.push(v); } }
    pub fn violation(&mut self, rule: &str, sig: &[(&str, String)], detail: String, replay: Value) {
        let s: BTreeMap<String, String> = sig.iter().map(|(k, v)| (k.to_string(), v.clone())).collect();
        self.found.push((rule.to_string(), s, detail, replay));
    }
}

pub struct FuzzPlan {
    pub id: &'static str,
    pub level: &'static str,
    pub cases: u64,
    pub rule: String,
    pub assumptions: Vec<String>,
    /// (counter, minimum) — below → inconclusive
    pub gates: Vec<(&'static str, usize)>,
    pub budget_s: u64,
}

pub fn run_cases<F>(plan: FuzzPlan, tier: &str, seed: u64, f: F) -> i32
where F: Fn(u64, &mut Rng, &mut Local) + Send + Sync + 'static {
    cases_report(plan, tier, seed, f).finish()
}

pub fn cases_report<F>(plan: FuzzPlan, tier: &str, seed: u64, f: F) -> Report
where F: Fn(u64, &mut Rng, &mut Local) + Send + Sync + 'static {
    let start = Instant::now();
    let threads = std::thread::available_parallelism().map(|n| n.get()).unwrap_or(8).min(16);
    let f = Arc::new(f);
    let next = Arc::new(std::sync::atomic::AtomicU64::new(0));
    let global: Arc<Mutex<Vec<Local>>> = Arc::new(Mutex::new(Vec::new()));
    let deadline = start + std::time::Duration::from_secs(plan.budget_s);
    let timed_out = Arc::new(std::sync::atomic::AtomicBool::new(false));
    let total = plan.cases;
    let mut handles = Vec::new();
    for _ in 0..threads {
        let f = f.clone();
        let next = next.clone();
        let global = global.clone();
        let timed_out = timed_out.clone();
        handles.push(std::thread::Builder::new().stack_size(64 << 20).spawn(move || {
            crate::runner::install_panic_hook();
            let mut local = Local::default();
            loop {
                let idx = next.fetch_add(1, std::sync::atomic::Ordering::SeqCst);
                if idx >= total { break; }
                if Instant::now() > deadline { timed_out.store(true, std::sync::atomic::Ordering::SeqCst); break; }
                let mut rng = Rng::derive(seed, idx, 0xF022);
                local.evaluations += 1;
                f(idx, &mut rng, &mut local);
            }
            global.lock().unwrap().push(local);
        }).unwrap());
    }
    for h in handles { let _ = h.join(); }
    let locals = std::mem::take(&mut *global.lock().unwrap());

    let mut rep = Report::new(plan.id, tier, seed, plan.level);
    let mut counters: BTreeMap<String, usize> = BTreeMap::new();
    let mut nontrivial: HashSet<u64> = HashSet::new();
    let mut unspecified: BTreeMap<String, usize> = BTreeMap::new();
    for l in locals {
        rep.evaluations += l.evaluations;
        for (k, v) in l.counters { *counters.entry(k.to_string()).or_insert(0) += v; }
        nontrivial.extend(l.nontrivial);
        for (k, v) in l.unspecified { *unspecified.entry(k).or_insert(0) += v; }
        for s in l.samples { if rep.samples.len() < 4 { rep.samples.push(s); } }
        for (rule, sig, detail, replay) in l.found { rep.add_found(&rule, sig, detail, replay); }
    }
    rep.distinct_nontrivial = nontrivial.len();
    rep.rule = plan.rule.clone();
    rep.assumptions = plan.assumptions.clone();
    let mut extra = Map::new();
    extra.insert("rule_evaluations".into(), json!(counters));
    if !unspecified.is_empty() { extra.insert("unspecified_not_judged".into(), json!(unspecified)); }
    extra.insert("threads".into(), json!(threads));
    rep.extra = extra;
    let to = timed_out.load(std::sync::atomic::Ordering::SeqCst);
    for (k, min) in &plan.gates {
        let have = counters.get(*k).copied().unwrap_or(0);
        if have < *min && !to { rep.inconclusive.push(format!("coverage-gate:{}={}<{}", k, have, min)); }
    }
    if to && (rep.evaluations as u64) < total / 20 { rep.inconclusive.push(format!("watchdog: only {} of {} cases ran", rep.evaluations, total)); }
    rep.wall_s = start.elapsed().as_secs_f64();
    rep
}

pub fn replay_other(kind: &str, doc: &Value, path: &str) -> i32 {
    match kind {
        "codec-encode" => crate::codecfuzz::replay_encode(doc, path),
        "codec-decode" => crate::codecfuzz::replay_decode(doc, path),
        _ => {
            println!("replay kind {}: the witness is fully described by the 'replay' object of {}; re-run the check with the recorded seed to reproduce", kind, path);
            0
        }
    }
}
