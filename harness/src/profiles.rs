//! Workload generators: one family of cases per property, all seeded.

use crate::broker::BrokerProfile;
use crate::rng::Rng;
use crate::runner::*;
use crate::sim::*;

fn rand_connect(r: &mut Rng, v5: bool) -> ConnectSpec {
    let mut c = ConnectSpec::default();
    c.keep_alive = *r.pick(&[Some(1200u16), Some(60), Some(0), None, Some(30), Some(65535)]);
    c.rejoin = r.below(3) as u8;
    if r.chance(2, 3) { c.client_id = Some(format!("client-{}", r.below(1000))); }
    if r.chance(1, 3) { c.username = Some("user".into()); c.password = if r.chance(1, 2) { Some(b"secret".to_vec()) } else { None }; }
    if v5 {
        if r.chance(1, 2) { c.session_expiry = Some(r.below(100000) as u32); }
        if r.chance(1, 3) { c.receive_maximum = Some(r.range(1, 100) as u16); }
        if r.chance(1, 2) { c.topic_alias_maximum = Some(r.range(0, 10) as u16); }
        if r.chance(1, 3) { c.maximum_packet_size = Some(r.range(2048, 100000) as u32); }
        if r.chance(1, 4) { c.request_problem_information = Some(r.chance(1, 2)); }
        if r.chance(1, 4) { c.request_response_information = Some(r.chance(1, 2)); }
        if r.chance(1, 4) { c.user_props = vec![("ck".into(), "cv".into())]; }
    }
    if r.chance(1, 4) {
        let mut w = PublishSpec { topic: "will/topic".into(), qos: r.below(3) as u8, retain: r.chance(1, 2), payload: Some(b"gone".to_vec()), ..Default::default() };
        if v5 && r.chance(1, 2) { w.content_type = Some("text".into()); w.user_props = vec![("wk".into(), "wv".into())]; }
        c.will = Some(w);
        if v5 && r.chance(1, 2) { c.will_delay = Some(r.below(100) as u32); }
    }
    c
}

fn rand_engine(r: &mut Rng) -> EngineSpec {
    let v5 = r.chance(2, 3);
    EngineSpec {
        connect: rand_connect(r, v5),
        policy: r.below(4) as u8,
        ping_timeout_ms: *r.pick(&[10_000u64, 1000, 30_000, 500]),
        ping_timeout_max: false,
        v5,
        one_at_a_time: r.chance(1, 3),
        max_retries: *r.pick(&[None, None, Some(0u32), Some(1), Some(3)]),
        resolver: match r.below(4) { 0 => Resolver::Manual, 1 => Resolver::Lru(r.range(1, 6) as u16), _ => Resolver::Null },
    }
}

fn rand_buf(r: &mut Rng) -> usize {
    *r.pick(&[4usize, 5, 7, 8, 16, 33, 64, 128, 500, 4096, 4096, 8192])
}

fn base_case(seed: u64, idx: u64) -> (Case, Rng) {
    let mut r = Rng::derive(seed, idx, 0xCA5E);
    let engine = rand_engine(&mut r);
    let mut broker = BrokerProfile::default();
    broker.topic_alias_maximum_choices = vec![None, Some(0), Some(1), Some(3), Some(10)];
    broker.receive_maximum_choices = vec![None, Some(1), Some(2), Some(3), Some(10), Some(65535)];
    let case = Case { seed: r.next_u64(), engine, broker, sim: SimProfile::default(), buf_capacity: rand_buf(&mut r), force_flags: None };
    (case, r)
}

/// the general mixed workload most engine-level properties share
fn mixed(case: &mut Case, r: &mut Rng) {
    case.sim.n_ops = r.range(3, 30) as usize;
    case.sim.close_permille = *r.pick(&[0u64, 5, 15, 40]);
    case.sim.max_conns = r.range(1, 7) as usize;
    case.sim.write_chunk_max = *r.pick(&[0usize, 0, 1, 3, 17, 1000]);
    case.sim.deliver_chunk_max = *r.pick(&[0usize, 0, 1, 2, 5]);
    case.sim.discipline = *r.pick(&[Discipline::Contract, Discipline::Contract, Discipline::TimerOnly]);
    case.broker.ack_delay_max_ms = *r.pick(&[0u64, 0, 5, 50, 400]);
    case.broker.negative_pct = *r.pick(&[0u64, 10, 40]);
    case.broker.session_keep_pct = *r.pick(&[0u64, 50, 100]);
    case.broker.inbound_count = *r.pick(&[0usize, 0, 5, 20]);
    case.broker.inbound_repeat_pct = *r.pick(&[0u64, 30]);
    case.sim.ack_timeout_choices = r.pick(&[vec![None], vec![None, Some(100u64), Some(1000)], vec![Some(0), Some(5), None]]).clone();
    case.sim.flush_error_pct = *r.pick(&[0u64, 0, 3]);
    case.sim.write_stall_pct = *r.pick(&[0u64, 0, 20]);
    case.sim.manual_alias = case.engine.resolver == Resolver::Manual;
    case.broker.inbound_alias = r.chance(1, 2);
    case.sim.empty_payload_pct = *r.pick(&[0u64, 0, 15]);
}

pub fn gen_case(prop: &str, seed: u64, idx: u64) -> Case {
    let (mut case, mut r) = base_case(seed, idx);
    let r = &mut r;
    match prop {
        "C01" => {
            mixed(&mut case, r);
            case.broker.ack_withhold_pct = *r.pick(&[0u64, 0, 10, 30]);
            case.sim.mid_reset_permille = *r.pick(&[0u64, 0, 3]);
            case.sim.stop_permille = *r.pick(&[0u64, 0, 10]);
            if r.chance(1, 3) { case.broker.hostile_pct = *r.pick(&[5u64, 20]); }
        }
        "C04" | "C15" => {
            mixed(&mut case, r);
            case.sim.close_permille = 0; // closes are enumerated
            case.sim.n_ops = r.range(1, 6) as usize;
            case.sim.op_weights = if prop == "C04" { [0, 3, 5, 0, 0] } else { [2, 2, 2, 2, 2] };
            case.sim.max_conns = r.range(2, 6) as usize;
            case.broker.ack_delay_max_ms = *r.pick(&[0u64, 5, 50, 200]);
            case.broker.inbound_count = 0;
            case.sim.flush_error_pct = 0;
            case.buf_capacity = *r.pick(&[4usize, 7, 16, 64, 4096]);
            case.sim.write_chunk_max = *r.pick(&[0usize, 1, 5]);
            case.sim.big_payload_pct = 0;
            case.sim.op_gap_max_ms = *r.pick(&[0u64, 5, 300]);
            if prop == "C15" && r.chance(1, 4) {
                // a user-requested DISCONNECT among the operations (large enough to be half written with
                // the small buffers): the enumerated transport failures then also hit "connection lost
                // while the DISCONNECT is queued / half written / written"
                case.sim.stop_permille = *r.pick(&[30u64, 100]);
                case.sim.stop_with_props = r.chance(1, 2);
            }
        }
        "C05" => {
            mixed(&mut case, r);
            case.broker.inbound_count = r.range(5, 60) as usize;
            case.broker.inbound_repeat_pct = *r.pick(&[0u64, 20, 50]);
            case.broker.inbound_gap_max_ms = *r.pick(&[0u64, 5, 100]);
            case.broker.session_keep_pct = *r.pick(&[0u64, 60, 100]);
            case.engine.connect.rejoin = *r.pick(&[0u8, 1, 1]);
            case.sim.n_ops = r.range(0, 10) as usize;
            case.sim.max_conns = r.range(1, 6) as usize;
        }
        "C06" => {
            mixed(&mut case, r);
            case.sim.n_ops = r.range(10, 120) as usize;
            case.sim.op_weights = [1, 4, 3, 2, 2];
            case.sim.invalid_op_pct = 0;
            case.broker.random_caps = case.engine.v5 && r.chance(1, 3);
            case.broker.ack_withhold_pct = *r.pick(&[0u64, 0, 10]);
            case.sim.ack_timeout_choices = vec![None, Some(50), Some(500)];
        }
        "C07" => {
            mixed(&mut case, r);
            case.buf_capacity = *r.pick(&[4usize, 5, 8, 16, 40, 64, 4096]);
            case.sim.write_chunk_max = *r.pick(&[0usize, 1, 2, 9]);
            case.broker.connack_fail_pct = *r.pick(&[0u64, 20, 50]);
            case.broker.connack_silent_pct = *r.pick(&[0u64, 20]);
            case.broker.connack_delay_max_ms = *r.pick(&[0u64, 10, 40_000]);
            case.broker.early_connack_pct = *r.pick(&[0u64, 0, 50]);
            if r.chance(1, 4) { case.broker.hostile_pct = 30; }
            case.broker.assigned_client_id = r.chance(1, 2);
            case.broker.random_caps = r.chance(1, 2);
            case.broker.server_keep_alive_choices = vec![None, Some(0), Some(17), Some(600)];
            case.sim.max_conns = r.range(1, 7) as usize;
            case.sim.connect_timeout_ms = *r.pick(&[30_000u64, 100, 5]);
            case.sim.stop_permille = *r.pick(&[0u64, 30, 100]);
            case.sim.stop_with_props = r.chance(1, 2);
            case.sim.n_ops = r.range(0, 8) as usize;
            case.sim.op_gap_max_ms = 2;
        }
        "C08" => {
            mixed(&mut case, r);
            case.sim.discipline = *r.pick(&[Discipline::TimerOnly, Discipline::TimerOnly, Discipline::Contract]);
            case.sim.audit = case.sim.discipline == Discipline::Contract;
            case.sim.big_payload_pct = *r.pick(&[0u64, 20, 60]);
            case.broker.ack_withhold_pct = 0;
            case.broker.negative_pct = 0;
            case.engine.policy = 0;
            case.sim.close_permille = *r.pick(&[0u64, 0, 10]);
            case.broker.session_keep_pct = 100;
            case.engine.max_retries = None;
            case.sim.ack_timeout_choices = vec![None];
            case.sim.flush_error_pct = 0;
            case.sim.max_conns = 50;
            case.sim.invalid_op_pct = 0;
        }
        "C09" => {
            mixed(&mut case, r);
            case.engine.v5 = true;
            case.broker.receive_maximum_choices = vec![Some(1), Some(2), Some(3), Some(10), None];
            case.engine.one_at_a_time = r.chance(1, 2);
            case.sim.op_weights = [1, 4, 4, 1, 1];
            case.sim.n_ops = r.range(5, 60) as usize;
            case.sim.op_gap_max_ms = *r.pick(&[0u64, 0, 3]);
            case.broker.ack_delay_max_ms = *r.pick(&[5u64, 50, 500]);
            case.broker.session_keep_pct = *r.pick(&[50u64, 100]);
            case.engine.connect.rejoin = 1;
            case.sim.close_permille = *r.pick(&[0u64, 10, 30]);
        }
        "C10" => {
            mixed(&mut case, r);
            case.sim.n_ops = r.range(20, 400) as usize;
            case.sim.op_gap_max_ms = *r.pick(&[0u64, 0, 2]);
            case.sim.close_permille = *r.pick(&[3u64, 10, 25]);
            case.sim.max_conns = 12;
            case.broker.receive_maximum_choices = vec![None, Some(2), Some(5)];
            case.broker.ack_delay_max_ms = *r.pick(&[0u64, 20, 200]);
            case.sim.big_payload_pct = 1;
        }
        "C11" => {
            mixed(&mut case, r);
            case.sim.discipline = Discipline::Chaos;
            case.broker.hostile_pct = *r.pick(&[0u64, 10, 40]);
            case.broker.garbage_pct = *r.pick(&[0u64, 5, 30]);
            case.broker.early_connack_pct = *r.pick(&[0u64, 30]);
            case.broker.inbound_bad_alias_pct = *r.pick(&[0u64, 20]);
            case.broker.connack_fail_pct = *r.pick(&[0u64, 10]);
            case.broker.server_disconnect_pct = *r.pick(&[0u64, 30]);
            case.broker.random_caps = r.chance(1, 2);
            case.sim.prompt = r.chance(1, 2);
            case.sim.jitter_max_ms = *r.pick(&[0u64, 3, 2000, 100_000]);
            case.buf_capacity = *r.pick(&[4usize, 4, 5, 16, 4096]);
            case.engine.connect.keep_alive = *r.pick(&[Some(0u16), Some(1), Some(65535), None, Some(2)]);
            case.engine.ping_timeout_ms = *r.pick(&[0u64, 1, 10_000, u64::MAX / 4]);
            case.engine.ping_timeout_max = r.chance(1, 10);
            case.sim.ack_timeout_choices = vec![None, Some(0), Some(1), Some(3_600_000), Some(u64::MAX / 4)];
            case.sim.ack_timeout_max_pct = *r.pick(&[0u64, 0, 10]);
            case.sim.stop_permille = *r.pick(&[0u64, 20]);
            case.sim.connect_timeout_ms = *r.pick(&[30_000u64, 0, 1]);
            case.sim.mid_reset_permille = *r.pick(&[0u64, 5]);
            case.sim.max_conns = 8;
        }
        "C11H" => {
            // honest-broker executions for C11.R4: everything legal, including slow acks after the client's own timeout
            mixed(&mut case, r);
            case.broker.negative_pct = *r.pick(&[10u64, 50]);
            case.broker.ack_delay_max_ms = *r.pick(&[0u64, 100, 3000]);
            case.sim.ack_timeout_choices = vec![None, Some(50), Some(1000)];
            case.broker.server_disconnect_pct = *r.pick(&[0u64, 20]);
            case.broker.random_caps = r.chance(1, 2);
            case.broker.inbound_count = *r.pick(&[0usize, 10]);
            if r.chance(1, 3) {
                // answers that are legal but arrive in an awkward state: a PINGRESP (or an ack) that is
                // still on its way when the user's DISCONNECT has been encoded but not yet written
                case.engine.connect.keep_alive = Some(*r.pick(&[1u16, 2]));
                case.engine.ping_timeout_ms = 30_000;
                case.broker.server_keep_alive_choices = vec![None];
                case.broker.ping_delay_ms = Some((300, 2500));
                case.sim.op_gap_max_ms = *r.pick(&[1500u64, 4000]);
                case.sim.stop_permille = *r.pick(&[0u64, 5]);
                case.sim.stop_while_ping_outstanding_pct = *r.pick(&[20u64, 50]);
                case.sim.idle_tail_ms = 30_000;
                case.sim.write_chunk_max = *r.pick(&[1usize, 3]);
                case.sim.write_stall_pct = 30;
                case.sim.n_ops = r.range(1, 8) as usize;
            }
        }
        "C14" => {
            case.sim = SimProfile::default();
            // buffers large enough that a PINGREQ is never split across service calls: the ping
            // deadline is then measured from one well-defined instant
            case.buf_capacity = *r.pick(&[64usize, 512, 4096, 8192]);
            case.sim.prompt = true;
            case.sim.discipline = Discipline::Contract;
            case.sim.n_ops = r.range(0, 6) as usize;
            case.sim.op_gap_max_ms = *r.pick(&[0u64, 400, 3000, 40_000]);
            let ks = [0u16, 1, 2, 3, 5, 7, 59, 60, 61, 1199, 1200, 65535];
            case.engine.connect.keep_alive = Some(*r.pick(&ks));
            case.broker.server_keep_alive_choices = if case.engine.v5 && r.chance(1, 2) { vec![Some(*r.pick(&ks))] } else { vec![None] };
            case.engine.ping_timeout_ms = *r.pick(&[0u64, 1, 400, 1000, 2500, 30_000, 600_000]);
            case.broker.ping_delay_ms = *r.pick(&[None, Some((0u64, 400)), Some((300, 700)), Some((900, 1600)), Some((0, 40_000))]);
            case.broker.ping_withhold_pct = *r.pick(&[0u64, 0, 30, 100]);
            case.sim.idle_tail_ms = *r.pick(&[5_000u64, 200_000, 4_000_000]);
            case.sim.horizon_ms = 80_000_000;
            case.sim.max_conns = 2;
            case.sim.max_steps = 3000;
            case.broker.ack_delay_max_ms = *r.pick(&[0u64, 300]);
            case.sim.ack_timeout_choices = vec![None];
            case.broker.inbound_count = *r.pick(&[0usize, 3]);
            case.sim.big_payload_pct = 0;
        }
        "C16" => {
            mixed(&mut case, r);
            case.engine.v5 = r.chance(4, 5);
            case.broker.random_caps = true;
            case.sim.invalid_op_pct = *r.pick(&[0u64, 15]);
            case.sim.sub_id_pct = 40;
            case.sim.shared_pct = 40;
            case.sim.wildcard_pct = 40;
            case.sim.retain_pct = 40;
            case.sim.n_ops = r.range(5, 40) as usize;
            case.sim.close_permille = *r.pick(&[0u64, 5]);
        }
        "C17" => {
            mixed(&mut case, r);
            case.engine.v5 = r.chance(5, 6);
            case.engine.resolver = match r.below(5) { 0 => Resolver::Null, 1 | 2 => Resolver::Manual, _ => Resolver::Lru(r.range(1, 8) as u16) };
            case.sim.manual_alias = case.engine.resolver == Resolver::Manual;
            case.broker.topic_alias_maximum_choices = vec![None, Some(0), Some(1), Some(2), Some(3), Some(10), Some(65535)];
            case.broker.random_caps = r.chance(1, 2);
            case.sim.op_weights = [3, 3, 2, 0, 0];
            case.sim.n_ops = r.range(5, 60) as usize;
            let nt = r.range(1, 8) as usize;
            case.sim.topics = (0..nt).map(|i| format!("al/{}", i)).collect();
            case.sim.retain_pct = 30;
            case.engine.connect.topic_alias_maximum = *r.pick(&[None, Some(0u16), Some(2), Some(10)]);
            case.broker.inbound_alias = true;
            case.broker.inbound_count = *r.pick(&[0usize, 10, 40]);
            case.broker.inbound_bad_alias_pct = *r.pick(&[0u64, 0, 15]);
            case.sim.close_permille = *r.pick(&[0u64, 10]);
        }
        "C18" => {
            mixed(&mut case, r);
            let t = *r.pick(&[0u64, 1, 10, 250, 5_000, 3_600_000]);
            case.sim.ack_timeout_choices = vec![Some(t), Some(t), None];
            case.broker.ack_delay_max_ms = if t == 0 { 5 } else { (t * 2).min(8_000_000) };
            case.broker.ack_withhold_pct = *r.pick(&[0u64, 20, 60]);
            case.engine.max_retries = *r.pick(&[None, Some(0u32), Some(1), Some(2), Some(5)]);
            case.sim.op_weights = [0, 3, 3, 2, 2];
            case.sim.close_permille = *r.pick(&[0u64, 10, 40]);
            case.sim.idle_tail_ms = t * 3 + 10;
            case.sim.horizon_ms = 80_000_000;
            case.broker.session_keep_pct = *r.pick(&[50u64, 100]);
            case.sim.max_conns = 10;
            case.broker.negative_pct = 0;
        }
        _ => { mixed(&mut case, r); }
    }
    case
}

/// long single-configuration runs that cross the 65535 packet id boundary
pub fn wrap_case(seed: u64, idx: u64, n_ops: usize) -> Case {
    let mut r = Rng::derive(seed, idx, 0x77AA);
    let mut case = Case { seed: r.next_u64(), engine: EngineSpec::default(), broker: BrokerProfile::default(), sim: SimProfile::default(), buf_capacity: 4096, force_flags: None };
    case.engine.v5 = r.chance(1, 2);
    case.engine.policy = 0;
    case.engine.connect.client_id = Some("wrap".into());
    case.engine.connect.rejoin = 1;
    case.sim.n_ops = n_ops;
    case.sim.op_weights = [0, 10, 1, 1, 1];
    case.sim.op_gap_max_ms = 1;
    case.sim.payload_extra_max = 2;
    case.sim.big_payload_pct = 0;
    case.sim.user_props_max = 0;
    case.sim.max_steps = n_ops * 14 + 1000;
    case.broker.ack_delay_max_ms = *r.pick(&[3u64, 30]);
    // some acknowledgements are withheld so that a few operations stay in flight while the
    // allocator goes all the way round; sessions are resumed or lost at random
    case.broker.ack_withhold_pct = *r.pick(&[0u64, 1]);
    case.broker.session_keep_pct = *r.pick(&[0u64, 50, 100]);
    case.sim.close_permille = *r.pick(&[0u64, 1, 1]);
    case.sim.max_conns = 400;
    case.sim.reconnect_delay_max_ms = 2;
    case
}
