//! C02 / C03: differential fuzzing of the real encoder and decoder against the reference codec.

use crate::expect::*;
use crate::fuzz::*;
use crate::refmqtt as rf;
use crate::rng::Rng;
use crate::runner::*;
use gneiss_mqtt::alias::OutboundAliasResolution;
use gneiss_mqtt::client::config::ProtocolMode;
use gneiss_mqtt::verif as gv;
use serde_json::{json, Value};
use std::panic::{catch_unwind, AssertUnwindSafe};

pub const BOUNDARY_LENGTHS: &[usize] = &[0, 1, 127, 128, 16383, 16384, 65535];

/// a UTF-8 string of exactly `bytes` bytes (no U+0000, no non-characters)
pub fn gen_string(r: &mut Rng, bytes: usize) -> String {
    let specials = ["é", "ß", "€", "\u{D7FF}", "\u{E000}", "\u{FFFD}", "😀", "\u{10FFFD}", "/", " ", "\u{7f}", "\u{1}"];
    let mut s = String::with_capacity(bytes);
    while s.len() < bytes {
        let left = bytes - s.len();
        if r.chance(1, 4) {
            let sp = *r.pick(&specials);
            if sp.len() <= left { s.push_str(sp); continue; }
        }
        s.push((b'a' + r.below(26) as u8) as char);
    }
    s
}

fn gen_len(r: &mut Rng, big_ok: bool) -> usize {
    if r.chance(1, 3) {
        let l = *r.pick(BOUNDARY_LENGTHS);
        if l > 20000 && !big_ok { 128 } else { l }
    } else {
        r.below(40) as usize
    }
}

fn gen_props(r: &mut Rng, max: usize, big: bool) -> Vec<(String, String)> {
    let n = r.below(max as u64 + 1) as usize;
    (0..n).map(|_| { let ba = big && r.chance(1, 8); let a = gen_len(r, ba); let bb = big && r.chance(1, 8); let b = gen_len(r, bb); (gen_string(r, a), gen_string(r, b)) }).collect()
}

fn gen_topic(r: &mut Rng, big: bool) -> String {
    let n = if r.chance(1, 5) && big { *r.pick(&[127usize, 128, 16383, 16384, 65535]) } else { r.range(1, 30) as usize };
    let mut t = gen_string(r, n);
    // topic names must not contain wildcards; the generator alphabet has none
    if t.is_empty() { t.push('t'); }
    t
}

pub fn gen_publish_spec(r: &mut Rng, v5: bool, big: bool) -> PublishSpec {
    let mut p = PublishSpec { topic: gen_topic(r, big), qos: r.below(3) as u8, retain: r.chance(1, 2), ..Default::default() };
    p.payload = match r.below(6) {
        0 => None,
        1 => Some(vec![]),
        2 => { let n = *r.pick(BOUNDARY_LENGTHS); Some(r.bytes(n)) }
        3 if big => { let n = *r.pick(&[70_000usize, 100_000, 300_000]); Some(r.bytes(n)) }
        _ => { let n = r.below(200) as usize; Some(r.bytes(n)) }
    };
    if v5 {
        if r.chance(1, 2) { p.payload_format = Some(r.below(2) as u8); }
        if r.chance(1, 2) { p.message_expiry = Some(*r.pick(&[0u32, 1, 65535, 65536, u32::MAX])); }
        if r.chance(1, 2) { let bt = big && r.chance(1, 4); p.response_topic = Some(gen_topic(r, bt)); }
        if r.chance(1, 2) { let n = gen_len(r, big); p.correlation_data = Some(r.bytes(n)); }
        if r.chance(1, 2) { let n = gen_len(r, big); p.content_type = Some(gen_string(r, n)); }
        p.user_props = gen_props(r, 4, big);
    }
    p
}

fn gen_filter(r: &mut Rng) -> String {
    let levels = r.range(1, 5);
    let mut parts = Vec::new();
    for i in 0..levels {
        let last = i == levels - 1;
        parts.push(match r.below(6) {
            0 => "+".to_string(),
            1 if last => "#".to_string(),
            2 => String::new(),
            _ => { let n = r.range(1, 8) as usize; gen_string(r, n).replace('/', "x") }
        });
    }
    let f = parts.join("/");
    if f.is_empty() { "a".to_string() } else { f }
}

pub fn gen_subscribe_spec(r: &mut Rng, v5: bool, big: bool) -> SubscribeSpec {
    let n = *r.pick(&[1usize, 1, 2, 3, 10]);
    let mut subs = Vec::new();
    for _ in 0..n {
        let mut s = rf::Subscription { filter: gen_filter(r), qos: r.below(3) as u8, ..Default::default() };
        if r.chance(1, 10) && big { let l = *r.pick(&[16383usize, 16384, 65535]); s.filter = gen_string(r, l).replace('/', "x"); }
        if v5 { s.no_local = r.chance(1, 3); s.retain_as_published = r.chance(1, 3); s.retain_handling = r.below(3) as u8; }
        subs.push(s);
    }
    let mut spec = SubscribeSpec { subs, ..Default::default() };
    if v5 {
        if r.chance(1, 2) { spec.subscription_id = Some(*r.pick(&[1u32, 5, 127, 128, 16383, 16384, 2_097_151, 2_097_152, 268_435_455])); }
        spec.user_props = gen_props(r, 3, big);
    }
    spec
}

pub fn gen_unsubscribe_spec(r: &mut Rng, v5: bool, big: bool) -> UnsubscribeSpec {
    let n = *r.pick(&[1usize, 1, 2, 5]);
    let mut filters: Vec<String> = (0..n).map(|_| gen_filter(r)).collect();
    if r.chance(1, 10) && big { let l = *r.pick(&[16383usize, 16384, 65535]); filters[0] = gen_string(r, l).replace('/', "x"); }
    UnsubscribeSpec { filters, user_props: if v5 { gen_props(r, 3, big) } else { vec![] } }
}

pub fn gen_disconnect_spec(r: &mut Rng, v5: bool, big: bool) -> DisconnectSpec {
    // reason codes a client may send
    let reasons = [0x00u8, 0x04, 0x80, 0x81, 0x82, 0x83, 0x93, 0x94, 0x95, 0x96, 0x97, 0x98, 0x99];
    let mut d = DisconnectSpec { reason: *r.pick(&reasons), ..Default::default() };
    if v5 {
        if r.chance(1, 3) { d.session_expiry = Some(*r.pick(&[0u32, 1, 3600, u32::MAX])); }
        if r.chance(1, 3) { let n = gen_len(r, big); d.reason_string = Some(gen_string(r, n)); }
        d.user_props = gen_props(r, 3, big);
    }
    d
}

pub fn gen_connect_spec(r: &mut Rng, v5: bool, big: bool) -> ConnectSpec {
    let mut c = ConnectSpec::default();
    c.keep_alive = *r.pick(&[None, Some(0u16), Some(1), Some(60), Some(65535)]);
    c.rejoin = r.below(3) as u8;
    if r.chance(2, 3) { let n = if r.chance(1, 6) && big { 65535 } else { r.below(24) as usize }; c.client_id = Some(gen_string(r, n)); }
    if r.chance(1, 2) { let n = gen_len(r, big); c.username = Some(gen_string(r, n)); }
    if r.chance(1, 2) { let n = gen_len(r, big); c.password = Some(r.bytes(n)); }
    if r.chance(1, 2) { c.session_expiry = Some(*r.pick(&[0u32, 1, 3600, u32::MAX])); }
    if r.chance(1, 3) { c.request_response_information = Some(r.chance(1, 2)); }
    if r.chance(1, 3) { c.request_problem_information = Some(r.chance(1, 2)); }
    if r.chance(1, 3) { c.receive_maximum = Some(*r.pick(&[1u16, 2, 65535])); }
    if r.chance(1, 3) { c.topic_alias_maximum = Some(*r.pick(&[0u16, 1, 65535])); }
    if r.chance(1, 3) { c.maximum_packet_size = Some(*r.pick(&[1u32, 100, 268_435_455, u32::MAX])); }
    if r.chance(1, 2) {
        let mut w = gen_publish_spec(r, v5, big);
        // a will payload is length-prefixed binary data: at most 65535 bytes (larger values are
        // a validation matter, judged under C16)
        if w.payload.as_ref().map(|p| p.len() > 65535).unwrap_or(false) { w.payload = Some(r.bytes(65535)); }
        w.message_expiry = if v5 && r.chance(1, 2) { Some(7) } else { None };
        c.will = Some(w);
        if r.chance(1, 2) { c.will_delay = Some(*r.pick(&[0u32, 5, u32::MAX])); }
    }
    if r.chance(1, 2) { c.user_props = gen_props(r, 3, big); }
    let _ = v5;
    c
}

fn capacity_schedules(r: &mut Rng) -> Vec<Vec<usize>> {
    let mut out = vec![vec![4usize], vec![1 << 21]];
    let n = r.range(1, 12) as usize;
    out.push((0..n).map(|_| *r.pick(&[4usize, 4, 5, 7, 8, 9, 16, 33, 64, 100, 4096])).collect());
    out.push(vec![*r.pick(&[5usize, 6, 7, 11, 4096])]);
    out
}

fn mode(v5: bool) -> ProtocolMode { if v5 { ProtocolMode::Mqtt5 } else { ProtocolMode::Mqtt311 } }

fn first_diff_connect(a: &rf::Connect, b: &rf::Connect) -> &'static str {
    if a.clean_start != b.clean_start { "clean_start" } else if a.keep_alive != b.keep_alive { "keep_alive" } else if a.client_id != b.client_id { "client_id" }
    else if a.username != b.username { "username" } else if a.password != b.password { "password" } else if a.will != b.will { "will" }
    else if a.user_props != b.user_props { "user_props" } else { "properties" }
}

/// One encode case: returns the outbound packet, the expected reference packet and a label
fn gen_encode_case(r: &mut Rng, v5: bool, big: bool) -> (gv::OutboundPacket, rf::Packet, OutboundAliasResolution, Value) {
    let none = OutboundAliasResolution { skip_topic: false, alias: None };
    match r.below(10) {
        0 | 1 | 2 => {
            let spec = gen_publish_spec(r, v5, big);
            let mut exp = expected_publish(&spec, v5);
            let dup = spec.qos > 0 && r.chance(1, 3);
            let id = if spec.qos > 0 { *r.pick(&[1u16, 2, 255, 256, 65535]) } else { 0 };
            exp.dup = dup;
            exp.packet_id = if spec.qos > 0 { Some(id) } else { None };
            let mut res = none;
            if v5 {
                match r.below(3) {
                    1 => { let a = *r.pick(&[1u16, 2, 65535]); res = OutboundAliasResolution { skip_topic: false, alias: Some(a) }; exp.topic_alias = Some(a); }
                    2 => { let a = *r.pick(&[1u16, 2, 65535]); res = OutboundAliasResolution { skip_topic: true, alias: Some(a) }; exp.topic_alias = Some(a); exp.topic = String::new(); }
                    _ => {}
                }
            }
            let label = json!({"publish": publish_spec_json(&spec), "packet_id": id, "dup": dup, "alias": res.alias, "skip_topic": res.skip_topic});
            (gv::OutboundPacket::Publish { packet: build_publish(&spec), packet_id: id, duplicate: dup, topic_alias: None }, rf::Packet::Publish(exp), res, label)
        }
        3 | 4 => {
            let spec = gen_subscribe_spec(r, v5, big);
            let id = *r.pick(&[1u16, 77, 65535]);
            let mut exp = expected_subscribe(&spec, v5);
            exp.packet_id = id;
            let label = op_json(&OpSpec { tag: 0, body: OpBody::Subscribe(spec.clone()), ack_timeout_ms: None, ack_timeout_max: false });
            (gv::OutboundPacket::Subscribe { packet: build_subscribe(&spec), packet_id: id }, rf::Packet::Subscribe(exp), none, label)
        }
        5 => {
            let spec = gen_unsubscribe_spec(r, v5, big);
            let id = *r.pick(&[1u16, 77, 65535]);
            let mut exp = expected_unsubscribe(&spec, v5);
            exp.packet_id = id;
            let label = op_json(&OpSpec { tag: 0, body: OpBody::Unsubscribe(spec.clone()), ack_timeout_ms: None, ack_timeout_max: false });
            (gv::OutboundPacket::Unsubscribe { packet: build_unsubscribe(&spec), packet_id: id }, rf::Packet::Unsubscribe(exp), none, label)
        }
        6 => {
            let spec = gen_disconnect_spec(r, v5, big);
            let exp = expected_disconnect(&spec, v5);
            let label = json!({"disconnect": {"reason": spec.reason, "session_expiry": spec.session_expiry, "reason_string_len": spec.reason_string.as_ref().map(|s| s.len()), "user_props": spec.user_props.len()}});
            (gv::OutboundPacket::Disconnect(build_disconnect(&spec)), rf::Packet::Disconnect(exp), none, label)
        }
        7 | 8 => {
            let spec = gen_connect_spec(r, v5, big);
            let previously = r.chance(1, 2);
            let clean = match spec.rejoin { 0 => !previously, 1 => false, _ => true };
            let over = if r.chance(1, 2) { Some(format!("assigned-{}", r.below(100))) } else { None };
            let cid = spec.client_id.clone().or(over.clone()).unwrap_or_default();
            let exp = expected_connect(&spec, v5, clean, &cid);
            // C02 is about packets the client emits: ask the real engine whether it puts a CONNECT on
            // the wire for these options at all (it refuses options that break the static rules)
            let refused = {
                let mut es = EngineSpec::default();
                es.connect = spec.clone();
                es.v5 = v5;
                catch_unwind(AssertUnwindSafe(|| { let mut runner = Runner::new(es, 1 << 21); runner.apply(Event::Open { deadline_ms: 30_000 }).result.is_err() })).unwrap_or(false)
            };
            let label = json!({"connect": connect_spec_json(&spec), "connected_previously": previously, "client_id_override": over, "client_refuses_locally": refused});
            (gv::OutboundPacket::Connect { options: build_connect_options(&spec), connected_previously: previously, client_id_override: over }, rf::Packet::Connect(exp), none, label)
        }
        _ => {
            let id = *r.pick(&[1u16, 300, 65535]);
            let ack = rf::Ack { packet_id: id, ..Default::default() };
            match r.below(5) {
                0 => (gv::OutboundPacket::Puback(id), rf::Packet::Puback(ack), none, json!({"puback": id})),
                1 => (gv::OutboundPacket::Pubrec(id), rf::Packet::Pubrec(ack), none, json!({"pubrec": id})),
                2 => (gv::OutboundPacket::Pubrel(id), rf::Packet::Pubrel(ack), none, json!({"pubrel": id})),
                3 => (gv::OutboundPacket::Pubcomp(id), rf::Packet::Pubcomp(ack), none, json!({"pubcomp": id})),
                _ => (gv::OutboundPacket::Pingreq, rf::Packet::Pingreq, none, json!("pingreq")),
            }
        }
    }
}

fn norm_rule(e: &str) -> String {
    // keep the rule name, drop trailing numbers
    let mut out = String::new();
    for ch in e.chars() { if ch.is_ascii_digit() { if !out.ends_with('#') { out.push('#'); } } else { out.push(ch); } }
    out
}

fn check_encode_case(v5: bool, packet: &gv::OutboundPacket, exp: &rf::Packet, res: OutboundAliasResolution, schedules: &[Vec<usize>], label: &Value, l: &mut Local) {
    let kind = exp.kind();
    if label["client_refuses_locally"] == json!(true) { l.count("c02.connect_options_refused_by_the_client"); return; }
    let replay = json!({"kind": "codec-encode", "v5": v5, "input": label, "schedules": schedules});
    let mut first: Option<Vec<u8>> = None;
    for (si, sched) in schedules.iter().enumerate() {
        let r = catch_unwind(AssertUnwindSafe(|| gv::encode(packet, mode(v5), res, sched)));
        let bytes = match r {
            Err(_) => {
                let (m, loc) = take_panic();
                let (m, f) = panic_signature(&m, &loc);
                l.violation("C02.R4-encoder-panic", &[("packet", kind.into()), ("panic_message", m), ("panic_file", f)], format!("encoding {} panicked", kind), replay.clone());
                return;
            }
            Ok(Err(e)) => {
                l.violation("C02.R5-encoder-rejects-valid-input", &[("packet", kind.into()), ("error", error_kind(&e))], format!("encoding {} failed: {}", kind, e), replay.clone());
                return;
            }
            Ok(Ok(b)) => b,
        };
        l.count("c02.encodings");
        match &first {
            None => first = Some(bytes),
            Some(f) => {
                l.count("c02.schedule_comparisons");
                if *f != bytes {
                    let pos = f.iter().zip(bytes.iter()).position(|(a, b)| a != b).unwrap_or(usize::min(f.len(), bytes.len()));
                    l.violation("C02.R3-output-depends-on-buffer-sizes", &[("packet", kind.into())], format!("{}: schedule 0 and schedule {} differ at byte {} (lengths {} / {})", kind, si, pos, f.len(), bytes.len()), replay.clone());
                    return;
                }
            }
        }
    }
    let bytes = first.unwrap();
    match rf::decode_all(&bytes, v5) {
        Err(e) => {
            let mut cause = norm_rule(&e);
            if let Ok(ps) = rf::decode_all_compat(&bytes, v5) {
                if ps.len() == 1 && ps[0] == *exp && kind == "SUBSCRIBE" { cause = "subscription-identifier-encoded-as-u32".to_string(); }
            }
            l.violation("C02.R1-reference-decoder-rejects", &[("packet", kind.into()), ("cause", cause.clone()), ("version", if v5 { "5".into() } else { "3.1.1".to_string() })], format!("{} ({} bytes, starts {}): {}", kind, bytes.len(), hex(&bytes[..usize::min(24, bytes.len())]), e), replay);
        }
        Ok(ps) => {
            l.count("c02.decoded_by_reference");
            if ps.len() != 1 {
                l.violation("C02.R2-content-mismatch", &[("packet", kind.into()), ("field", "packet-count".into())], format!("{} packets decoded", ps.len()), replay);
            } else if ps[0] != *exp {
                let field = match (&ps[0], exp) {
                    (rf::Packet::Publish(a), rf::Packet::Publish(b)) => publish_content_diff(a, b).unwrap_or(if a.topic != b.topic { "topic" } else if a.topic_alias != b.topic_alias { "topic_alias" } else if a.dup != b.dup { "dup" } else { "packet_id" }),
                    (rf::Packet::Connect(a), rf::Packet::Connect(b)) => first_diff_connect(a, b),
                    _ => "content",
                };
                l.violation("C02.R2-content-mismatch", &[("packet", kind.into()), ("field", field.into())], format!("decoded {:?} expected {:?}", short(&ps[0]), short(exp)), replay);
            }
        }
    }
}

fn short(p: &rf::Packet) -> String {
    let s = format!("{:?}", p);
    if s.len() > 600 { format!("{}…", &s[..600]) } else { s }
}

pub fn run_c02(tier: &str, seed: u64) -> i32 {
    let codec = c02_report(tier, seed);
    let mut rep = match crate::check::engine_report("C02", tier, seed, if tier == "thorough" { 3000 } else { 600 }) {
        Some(engine) => codec.merge(engine, "codec_fuzz", "engine_wire"),
        None => codec,
    };
    if tier == "thorough" || std::env::var("VERIF_MIRI").is_ok() { crate::miri::add_miri(&mut rep, &[("encode", 4)]); }
    rep.finish()
}

pub fn c02_report(tier: &str, seed: u64) -> crate::report::Report {
    let quick = tier != "thorough";
    let plan = FuzzPlan {
        id: "C02", level: "exploration", cases: if quick { 60_000 } else { 2_000_000 },
        rule: "generated CONNECT (from connect options incl. will), PUBLISH, SUBSCRIBE, UNSUBSCRIBE, DISCONNECT, default acks and PINGREQ in both protocol versions with boundary lengths 0/1/127/128/16383/16384/65535, multi-byte UTF-8, 0..n user properties / subscriptions / filters and all three alias resolutions; each is encoded by the real encoder under 4 buffer-capacity schedules (all-4, one big, random mix, single odd size), decoded by the strict reference decoder and compared field by field; non-trivial = the reference decoder was applied to an encoding; distinct = distinct (packet kind, version, length) inputs".into(),
        assumptions: vec!["reference decoder written from the OASIS MQTT 5.0 / 3.1.1 texts".into(), "payloads up to 300 kB (quick: 70 kB); the 256 MB limit is not explored".into(), "U+0000 and non-characters are not generated".into()],
        gates: vec![("c02.decoded_by_reference", if quick { 40_000 } else { 1_000_000 }), ("c02.schedule_comparisons", 100_000)],
        budget_s: if quick { 600 } else { 3000 },
    };
    cases_report(plan, tier, seed, move |_idx, r, l| {
        let v5 = r.chance(2, 3);
        let big = r.chance(1, if quick { 12 } else { 5 });
        let (packet, exp, res, label) = gen_encode_case(r, v5, big);
        let schedules = capacity_schedules(r);
        let before = l.found.len();
        check_encode_case(v5, &packet, &exp, res, &schedules, &label, l);
        let enc_len = rf::encode(&exp, v5, &rf::Knobs::default()).len();
        l.nontrivial(crate::rng::fnv(format!("{}|{}|{}", exp.kind(), v5, enc_len).as_bytes()));
        if l.samples.len() < 3 && l.found.len() == before { l.sample(json!({"version": if v5 { "5" } else { "3.1.1" }, "packet": exp.kind(), "input": label, "encoded_bytes": enc_len, "schedules": schedules})); }
    })
}

pub fn replay_encode(doc: &Value, path: &str) -> i32 {
    println!("codec-encode witness: input and buffer schedules are in the 'replay' object of {}", path);
    println!("{}", serde_json::to_string(&doc["replay"]).unwrap_or_default().chars().take(2000).collect::<String>());
    println!("re-run `./check C02 --seed {}` to reproduce (the generator is deterministic in the seed)", doc["seed"]);
    0
}

/* ---------------------------------------------------------------------------------------- */
/* C03                                                                                        */
/* ---------------------------------------------------------------------------------------- */

fn opt_str(r: &mut Rng, p: u64, big: bool) -> Option<String> {
    if r.chance(p, 100) { let n = gen_len(r, big); Some(gen_string(r, n)) } else { None }
}

pub fn gen_server_packet(r: &mut Rng, v5: bool, big: bool) -> rf::Packet {
    match r.below(11) {
        0 | 1 => {
            let mut k = rf::Connack::default();
            if v5 {
                k.reason = *r.pick(rf::CONNACK_REASONS5);
                k.session_present = k.reason == 0 && r.chance(1, 2);
                if r.chance(1, 2) { k.session_expiry = Some(*r.pick(&[0u32, 1, u32::MAX])); }
                if r.chance(1, 2) { k.receive_maximum = Some(*r.pick(&[1u16, 20, 65535])); }
                if r.chance(1, 2) { k.maximum_qos = Some(r.below(2) as u8); }
                if r.chance(1, 2) { k.retain_available = Some(r.below(2) as u8); }
                if r.chance(1, 2) { k.maximum_packet_size = Some(*r.pick(&[1u32, 1024, u32::MAX])); }
                k.assigned_client_id = opt_str(r, 40, big);
                if r.chance(1, 2) { k.topic_alias_maximum = Some(*r.pick(&[0u16, 1, 65535])); }
                k.reason_string = opt_str(r, 30, big);
                k.user_props = gen_props(r, 3, big);
                if r.chance(1, 2) { k.wildcard_available = Some(r.below(2) as u8); }
                if r.chance(1, 2) { k.subscription_ids_available = Some(r.below(2) as u8); }
                if r.chance(1, 2) { k.shared_available = Some(r.below(2) as u8); }
                if r.chance(1, 2) { k.server_keep_alive = Some(*r.pick(&[0u16, 1, 65535])); }
                k.response_information = opt_str(r, 20, big);
                k.server_reference = opt_str(r, 20, big);
                k.authentication_method = opt_str(r, 20, false);
                if k.authentication_method.is_some() && r.chance(1, 2) { let n = gen_len(r, big); k.authentication_data = Some(r.bytes(n)); }
            } else {
                k.reason = *r.pick(rf::CONNACK_RETURN_CODES311);
                k.session_present = k.reason == 0 && r.chance(1, 2);
            }
            rf::Packet::Connack(k)
        }
        2 | 3 | 4 => {
            let mut p = rf::Publish { qos: r.below(3) as u8, retain: r.chance(1, 2), topic: gen_topic(r, big), ..Default::default() };
            p.dup = p.qos > 0 && r.chance(1, 3);
            if p.qos > 0 { p.packet_id = Some(*r.pick(&[1u16, 2, 256, 65535])); }
            let n = match r.below(5) { 0 => 0, 1 => *r.pick(BOUNDARY_LENGTHS), 2 if big => 70_000, _ => r.below(100) as usize };
            p.payload = r.bytes(n);
            if v5 {
                if r.chance(1, 2) { p.payload_format = Some(r.below(2) as u8); }
                if r.chance(1, 2) { p.message_expiry = Some(*r.pick(&[0u32, 9, u32::MAX])); }
                if r.chance(1, 3) { p.topic_alias = Some(*r.pick(&[1u16, 2, 65535])); if r.chance(1, 2) { p.topic = String::new(); } }
                if r.chance(1, 3) { p.response_topic = Some(gen_topic(r, false)); }
                if r.chance(1, 3) { let n = gen_len(r, big); p.correlation_data = Some(r.bytes(n)); }
                let ns = *r.pick(&[0usize, 0, 1, 3]);
                p.subscription_ids = (0..ns).map(|_| *r.pick(&[1u32, 127, 128, 16384, 268_435_455])).collect();
                p.content_type = opt_str(r, 30, big);
                p.user_props = gen_props(r, 3, big);
            }
            rf::Packet::Publish(p)
        }
        5 => {
            let kind = r.below(4);
            let table = match kind { 0 => rf::PUBACK_REASONS, 1 => rf::PUBREC_REASONS, 2 => rf::PUBREL_REASONS, _ => rf::PUBCOMP_REASONS };
            let mut a = rf::Ack { packet_id: *r.pick(&[1u16, 513, 65535]), ..Default::default() };
            if v5 {
                a.reason = *r.pick(table);
                a.reason_string = opt_str(r, 30, big);
                a.user_props = gen_props(r, 3, big);
            }
            match kind { 0 => rf::Packet::Puback(a), 1 => rf::Packet::Pubrec(a), 2 => rf::Packet::Pubrel(a), _ => rf::Packet::Pubcomp(a) }
        }
        6 | 7 => {
            let n = *r.pick(&[1usize, 1, 2, 8, 100]);
            let table = if v5 { rf::SUBACK_REASONS5 } else { rf::SUBACK_RETURN_CODES311 };
            let mut s = rf::Suback { packet_id: *r.pick(&[1u16, 513, 65535]), codes: (0..n).map(|_| *r.pick(table)).collect(), ..Default::default() };
            if v5 { s.reason_string = opt_str(r, 30, big); s.user_props = gen_props(r, 3, big); }
            rf::Packet::Suback(s)
        }
        8 => {
            let mut u = rf::Unsuback { packet_id: *r.pick(&[1u16, 513, 65535]), ..Default::default() };
            if v5 {
                let n = *r.pick(&[1usize, 1, 2, 8]);
                u.codes = (0..n).map(|_| *r.pick(rf::UNSUBACK_REASONS)).collect();
                u.reason_string = opt_str(r, 30, big);
                u.user_props = gen_props(r, 3, big);
            }
            rf::Packet::Unsuback(u)
        }
        9 => rf::Packet::Pingresp,
        _ => {
            if v5 {
                let mut d = rf::Disconnect { reason: *r.pick(rf::DISCONNECT_REASONS_SERVER), ..Default::default() };
                d.reason_string = opt_str(r, 30, big);
                d.user_props = gen_props(r, 3, big);
                d.server_reference = opt_str(r, 30, big);
                rf::Packet::Disconnect(d)
            } else {
                rf::Packet::Pingresp
            }
        }
    }
}

fn props_of(p: Option<&[gneiss_mqtt::mqtt::UserProperty]>) -> Vec<(String, String)> {
    p.map(|v| v.iter().map(|u| (u.name().to_string(), u.value().to_string())).collect()).unwrap_or_default()
}

fn b(o: Option<bool>) -> Option<u8> { o.map(|x| x as u8) }

/// converts what the real decoder produced into the reference representation
pub fn to_ref(d: &gv::DecodedPacket) -> Option<rf::Packet> {
    Some(match d {
        gv::DecodedPacket::Connack(k) => rf::Packet::Connack(rf::Connack {
            session_present: k.session_present(), reason: k.reason_code() as u8, session_expiry: k.session_expiry_interval(), receive_maximum: k.receive_maximum(),
            maximum_qos: k.maximum_qos().map(|q| q as u8), retain_available: b(k.retain_available()), maximum_packet_size: k.maximum_packet_size(),
            assigned_client_id: k.assigned_client_identifier().map(|s| s.to_string()), topic_alias_maximum: k.topic_alias_maximum(), reason_string: k.reason_string().map(|s| s.to_string()),
            user_props: props_of(k.user_properties()), wildcard_available: b(k.wildcard_subscriptions_available()), subscription_ids_available: b(k.subscription_identifiers_available()),
            shared_available: b(k.shared_subscriptions_available()), server_keep_alive: k.server_keep_alive(), response_information: k.response_information().map(|s| s.to_string()),
            server_reference: k.server_reference().map(|s| s.to_string()), authentication_method: k.authentication_method().map(|s| s.to_string()), authentication_data: k.authentication_data().map(|s| s.to_vec()),
        }),
        gv::DecodedPacket::Publish { packet, packet_id, topic_alias } => rf::Packet::Publish(rf::Publish {
            dup: packet.duplicate(), qos: packet.qos() as u8, retain: packet.retain(), topic: packet.topic().to_string(), packet_id: if packet.qos() as u8 > 0 { Some(*packet_id) } else { None },
            payload: packet.payload().map(|p| p.to_vec()).unwrap_or_default(), payload_format: packet.payload_format().map(|f| f as u8), message_expiry: packet.message_expiry_interval_seconds(),
            topic_alias: *topic_alias, response_topic: packet.response_topic().map(|s| s.to_string()), correlation_data: packet.correlation_data().map(|s| s.to_vec()),
            subscription_ids: packet.subscription_identifiers().map(|s| s.to_vec()).unwrap_or_default(), content_type: packet.content_type().map(|s| s.to_string()), user_props: props_of(packet.user_properties()),
        }),
        gv::DecodedPacket::Puback { packet, packet_id } => rf::Packet::Puback(rf::Ack { packet_id: *packet_id, reason: packet.reason_code() as u8, reason_string: packet.reason_string().map(|s| s.to_string()), user_props: props_of(packet.user_properties()) }),
        gv::DecodedPacket::Pubrec { packet, packet_id } => rf::Packet::Pubrec(rf::Ack { packet_id: *packet_id, reason: packet.reason_code() as u8, reason_string: packet.reason_string().map(|s| s.to_string()), user_props: props_of(packet.user_properties()) }),
        gv::DecodedPacket::Pubrel { packet, packet_id } => rf::Packet::Pubrel(rf::Ack { packet_id: *packet_id, reason: packet.reason_code() as u8, reason_string: packet.reason_string().map(|s| s.to_string()), user_props: props_of(packet.user_properties()) }),
        gv::DecodedPacket::Pubcomp { packet, packet_id } => rf::Packet::Pubcomp(rf::Ack { packet_id: *packet_id, reason: packet.reason_code() as u8, reason_string: packet.reason_string().map(|s| s.to_string()), user_props: props_of(packet.user_properties()) }),
        gv::DecodedPacket::Suback { packet, packet_id } => rf::Packet::Suback(rf::Suback { packet_id: *packet_id, reason_string: packet.reason_string().map(|s| s.to_string()), user_props: props_of(packet.user_properties()), codes: packet.reason_codes().iter().map(|c| *c as u8).collect() }),
        gv::DecodedPacket::Unsuback { packet, packet_id } => rf::Packet::Unsuback(rf::Unsuback { packet_id: *packet_id, reason_string: packet.reason_string().map(|s| s.to_string()), user_props: props_of(packet.user_properties()), codes: packet.reason_codes().iter().map(|c| *c as u8).collect() }),
        gv::DecodedPacket::Pingresp => rf::Packet::Pingresp,
        gv::DecodedPacket::Disconnect(d) => rf::Packet::Disconnect(rf::Disconnect { reason: d.reason_code() as u8, session_expiry: d.session_expiry_interval_seconds(), reason_string: d.reason_string().map(|s| s.to_string()), user_props: props_of(d.user_properties()), server_reference: d.server_reference().map(|s| s.to_string()) }),
        gv::DecodedPacket::Auth { reason_code, authentication_method, authentication_data, reason_string, user_properties } => rf::Packet::Auth(rf::Auth { reason: *reason_code, authentication_method: authentication_method.clone(), authentication_data: authentication_data.clone(), reason_string: reason_string.clone(), user_props: props_of(user_properties.as_deref()) }),
        gv::DecodedPacket::Other(_) => return None,
    })
}

/// what the real decoder is expected to produce for a reference packet in 3.1.1 mode
fn expected_decoded(p: &rf::Packet, v5: bool) -> rf::Packet {
    if v5 { return p.clone(); }
    match p {
        rf::Packet::Connack(k) => {
            let mut k = k.clone();
            k.reason = match k.reason { 0 => 0, 1 => 0x84, 2 => 0x85, 3 => 0x88, 4 => 0x86, _ => 0x87 };
            rf::Packet::Connack(k)
        }
        other => other.clone(),
    }
}

fn partitions(r: &mut Rng, len: usize) -> Vec<Vec<usize>> {
    // each partition is a list of chunk lengths summing to len
    let mut out = vec![vec![len], vec![1; len]];
    if len > 2 {
        out.push(vec![1, 1, len - 2]);
        out.push(vec![2, len - 2]);
        if len > 5 { out.push(vec![1, 2, 1, len - 4]); }
    }
    for _ in 0..2 {
        let mut v = Vec::new();
        let mut left = len;
        while left > 0 {
            let n = usize::min(left, r.range(1, 40) as usize);
            v.push(n);
            left -= n;
        }
        out.push(v);
    }
    out.retain(|p| p.iter().all(|x| *x > 0) && p.iter().sum::<usize>() == len);
    if len == 0 { out = vec![vec![]]; }
    out
}

struct DecodeRun {
    packets: Vec<gv::DecodedPacket>,
    error: Option<String>,
    /// index of the chunk whose delivery returned the error
    error_chunk: Option<usize>,
    panic: Option<(String, String)>,
}

fn decode_chunks(v5: bool, max_size: u32, stream: &[u8], part: &[usize]) -> DecodeRun {
    let r = catch_unwind(AssertUnwindSafe(|| {
        let mut d = gv::StreamDecoder::new(mode(v5), max_size);
        let mut packets = Vec::new();
        let mut off = 0;
        for (i, n) in part.iter().enumerate() {
            let (mut ps, res) = d.feed(&stream[off..off + n]);
            off += n;
            packets.append(&mut ps);
            if let Err(e) = res {
                return DecodeRun { packets, error: Some(format!("{}", e)), error_chunk: Some(i), panic: None };
            }
        }
        DecodeRun { packets, error: None, error_chunk: None, panic: None }
    }));
    match r {
        Ok(x) => x,
        Err(_) => { let p = take_panic(); DecodeRun { packets: vec![], error: None, error_chunk: None, panic: Some(p) } }
    }
}

fn mutate(r: &mut Rng, stream: &[u8]) -> Vec<u8> {
    let mut s = stream.to_vec();
    let n = r.range(1, 3);
    for _ in 0..n {
        if s.is_empty() { s = r.bytes(4); continue; }
        match r.below(7) {
            0 => { let i = r.below(s.len() as u64) as usize; s[i] ^= 1 << r.below(8); }
            1 => { let i = r.below(s.len() as u64) as usize; s[i] = r.below(256) as u8; }
            2 => { let i = r.below(s.len() as u64 + 1) as usize; s.truncate(i); }
            3 => { let n = r.range(1, 8) as usize; let extra = r.bytes(n); s.extend(extra); }
            4 => { let i = r.below(s.len() as u64) as usize; let n = r.range(1, 4) as usize; let x = r.bytes(n); for (k, b) in x.iter().enumerate() { s.insert(usize::min(i + k, s.len()), *b); } }
            5 => { let i = r.below(s.len() as u64) as usize; s.remove(i); }
            _ => { if s.len() > 1 { let i = 1 + r.below(usize::min(4, s.len() - 1) as u64) as usize; s[i] = *r.pick(&[0x00u8, 0x7f, 0x80, 0xff, 0x01]); } }
        }
    }
    s
}

pub fn run_c03(tier: &str, seed: u64) -> i32 {
    let quick = tier != "thorough";
    let plan = FuzzPlan {
        id: "C03", level: "exploration", cases: if quick { 60_000 } else { 2_000_000 },
        rule: "three case families per index: (a) 1..4 server-to-client packets produced by the reference encoder (random legal property order, every reason code of the spec tables, optional elisions) must decode to exactly that content under 5..7 partitions of the stream (one chunk, 1-byte reads, splits inside the fixed header / length, random); (b) the same streams after 1..3 byte-level mutations, and random strings: no panic, identical packets and verdict under every partition; (c) fixed headers announcing more than the maximum packet size in force must be rejected by the call that delivers the last length byte; non-trivial = a stream was decoded under at least two partitions; distinct = distinct stream hashes".into(),
        assumptions: vec!["reference encoder written from the OASIS MQTT 5.0 / 3.1.1 texts".into(), "packets up to ~70 kB".into(), "a mutated stream that the crate accepts although the reference decoder rejects it is counted (lenient_accepts) but is not a verdict".into()],
        gates: vec![("c03.faithful_streams", if quick { 30_000 } else { 800_000 }), ("c03.hostile_streams", if quick { 30_000 } else { 800_000 }), ("c03.size_probes", if quick { 10_000 } else { 300_000 })],
        budget_s: if quick { 600 } else { 3000 },
    };
    let thorough = !quick;
    let mut rep = cases_report(plan, tier, seed, move |_idx, r, l| {
        let v5 = r.chance(2, 3);
        let big = r.chance(1, if quick { 15 } else { 6 });
        // (a) faithful
        let n = r.range(1, 4) as usize;
        let packets: Vec<rf::Packet> = (0..n).map(|_| gen_server_packet(r, v5, big)).collect();
        let mut stream = Vec::new();
        let mut knob_list = Vec::new();
        for p in &packets {
            let knobs = rf::Knobs { property_order_seed: if r.chance(2, 3) { r.next_u64() | 1 } else { 0 }, no_elision: r.chance(1, 2) };
            stream.extend(rf::encode(p, v5, &knobs));
            knob_list.push(json!({"order_seed": knobs.property_order_seed, "no_elision": knobs.no_elision}));
        }
        let expected: Vec<rf::Packet> = packets.iter().map(|p| expected_decoded(p, v5)).collect();
        let replay = json!({"kind": "codec-decode", "v5": v5, "stream": hex(&stream[..usize::min(stream.len(), 4096)]), "stream_len": stream.len(), "packets": packets.iter().map(|p| p.kind()).collect::<Vec<_>>(), "knobs": knob_list});
        l.count("c03.faithful_streams");
        l.nontrivial(crate::rng::fnv(&stream));
        for part in partitions(r, stream.len()) {
            let run = decode_chunks(v5, 0, &stream, &part);
            l.count("c03.partitions_decoded");
            if let Some((m, loc)) = run.panic {
                let (m, f) = panic_signature(&m, &loc);
                l.violation("C03.R3-decoder-panic", &[("panic_message", m), ("panic_file", f)], format!("decoder panicked on a well-formed stream at {}", loc), replay.clone());
                break;
            }
            if let Some(e) = &run.error {
                let idx = run.packets.len();
                let kind = packets.get(idx).map(|p| p.kind()).unwrap_or("?");
                let mut cause = norm_rule(e);
                if let Some(rf::Packet::Unsuback(u)) = packets.get(idx) { if u.codes.contains(&0x8F) && e.contains("reason code") { cause = "unsuback-reason-0x8f".into(); } }
                l.violation("C03.R1-legal-packet-rejected", &[("packet", kind.into()), ("cause", cause), ("version", if v5 { "5".into() } else { "3.1.1".to_string() })], format!("{} rejected: {}", kind, e), replay.clone());
                break;
            }
            let got: Vec<Option<rf::Packet>> = run.packets.iter().map(to_ref).collect();
            let same = got.len() == expected.len() && got.iter().zip(expected.iter()).all(|(g, e)| g.as_ref() == Some(e));
            if !same {
                let i = got.iter().zip(expected.iter()).position(|(g, e)| g.as_ref() != Some(e)).unwrap_or(usize::min(got.len(), expected.len()));
                let kind = expected.get(i).map(|p| p.kind()).unwrap_or("count");
                l.violation("C03.R2-decoded-content-differs", &[("packet", kind.into()), ("version", if v5 { "5".into() } else { "3.1.1".to_string() })], format!("chunks {:?}: got {} expected {}", &part[..usize::min(6, part.len())], got.get(i).map(|g| g.as_ref().map(short).unwrap_or_default()).unwrap_or_default(), expected.get(i).map(short).unwrap_or_default()), replay.clone());
                break;
            }
        }
        if l.samples.len() < 2 { l.sample(json!({"family": "faithful", "version": if v5 { "5" } else { "3.1.1" }, "packets": packets.iter().map(|p| p.kind()).collect::<Vec<_>>(), "stream_len": stream.len(), "stream_prefix": hex(&stream[..usize::min(40, stream.len())])})); }

        // (b) hostile
        let hostile = if r.chance(1, 5) { let n = r.range(1, 60) as usize; r.bytes(n) } else { mutate(r, &stream) };
        if hostile.len() <= 200_000 {
            l.count("c03.hostile_streams");
            let replay_h = json!({"kind": "codec-decode", "v5": v5, "stream": hex(&hostile[..usize::min(hostile.len(), 4096)]), "stream_len": hostile.len(), "hostile": true});
            let mut base: Option<(Vec<Option<rf::Packet>>, bool)> = None;
            for part in partitions(r, hostile.len()) {
                let run = decode_chunks(v5, 0, &hostile, &part);
                l.count("c03.partitions_decoded");
                if let Some((m, loc)) = run.panic {
                    let (m, f) = panic_signature(&m, &loc);
                    l.violation("C03.R3-decoder-panic", &[("panic_message", m), ("panic_file", f)], format!("decoder panicked on hostile bytes at {}", loc), replay_h.clone());
                    break;
                }
                let got: Vec<Option<rf::Packet>> = run.packets.iter().map(to_ref).collect();
                let verdict = run.error.is_some();
                match &base {
                    None => base = Some((got, verdict)),
                    Some((g0, v0)) => {
                        if *g0 != got || *v0 != verdict {
                            l.violation("C03.R4-chunking-dependent", &[("verdicts", format!("{}/{}", v0, verdict)), ("packets", format!("{}", if g0.len() == got.len() { "same-count" } else { "different-count" }))], format!("partition {:?} gives {} packets / error {} but one-chunk delivery gives {} packets / error {}", &part[..usize::min(8, part.len())], got.len(), verdict, g0.len(), v0), replay_h.clone());
                            break;
                        }
                    }
                }
            }
            // leniency statistic
            if let Some((g0, false)) = &base {
                if !g0.is_empty() {
                    let strict = rf::decode_all(&hostile, v5);
                    if strict.is_err() { l.count("c03.lenient_accepts_of_stream_the_reference_rejects"); }
                }
            }
        }

        // (c) early size rejection
        let max: u32 = *r.pick(&[10u32, 100, 127, 128, 1000, 16384, 70000]);
        let over = r.chance(2, 3);
        // total = 1 + vbi_len(rl) + rl
        let total: u64 = if over { max as u64 + r.range(1, 100000) } else { max as u64 - r.below(usize::min(max as usize, 5) as u64) };
        let mut rl = total.saturating_sub(2);
        for cand in [total.saturating_sub(2), total.saturating_sub(3), total.saturating_sub(4), total.saturating_sub(5)] {
            if 1 + rf::vbi_len(cand as u32) as u64 + cand == total { rl = cand; break; }
        }
        if 1 + rf::vbi_len(rl as u32) as u64 + rl == total && rl < 268_435_455 {
            let first = *r.pick(&[0x30u8, 0x32, 0x40, 0x90, 0x20, 0xB0, 0xE0]);
            let mut header = vec![first];
            rf::vbi(rl as u32, &mut header);
            l.count("c03.size_probes");
            let part: Vec<usize> = if r.chance(1, 2) { vec![header.len()] } else { vec![1; header.len()] };
            let run = decode_chunks(v5, max, &header, &part);
            let replay_s = json!({"kind": "codec-decode", "v5": v5, "stream": hex(&header), "maximum_packet_size": max, "announced_total": total});
            if let Some((m, loc)) = run.panic {
                let (m, f) = panic_signature(&m, &loc);
                l.violation("C03.R3-decoder-panic", &[("panic_message", m), ("panic_file", f)], format!("decoder panicked on a fixed header at {}", loc), replay_s);
            } else if over && run.error.is_none() {
                l.violation("C03.R5-oversize-not-rejected-at-header", &[("over_by_one", (total == max as u64 + 1).to_string())], format!("fixed header announces {} bytes, maximum {} : no error after the length field", total, max), replay_s);
            } else if !over && run.error.is_some() && rl > 0 {
                l.violation("C03.R6-packet-within-limit-rejected-at-header", &[("at_limit", (total == max as u64).to_string())], format!("fixed header announces {} bytes, maximum {} : rejected: {:?}", total, max, run.error), replay_s);
            }
        }
    });
    if thorough || std::env::var("VERIF_MIRI").is_ok() { crate::miri::add_miri(&mut rep, &[("decode", 4)]); }
    rep.finish()
}

pub fn replay_decode(doc: &Value, path: &str) -> i32 {
    let rp = &doc["replay"];
    let v5 = rp["v5"].as_bool().unwrap_or(true);
    let stream = unhex(rp["stream"].as_str().unwrap_or(""));
    let max = rp["maximum_packet_size"].as_u64().unwrap_or(0) as u32;
    println!("decoding {} recorded bytes (stream_len {}) one chunk and byte by byte", stream.len(), rp["stream_len"]);
    for part in [vec![stream.len()], vec![1; stream.len()]] {
        let run = decode_chunks(v5, max, &stream, &part);
        println!("  {} chunks -> {} packets, error {:?}, panic {:?}", part.len(), run.packets.len(), run.error, run.panic);
    }
    println!("(full witness description in {})", path);
    0
}
