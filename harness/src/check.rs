//! Engine-level checks: run seeded simulations (optionally with disconnect-point enumeration) on
//! all cores, aggregate what the monitors observed, apply coverage gates.

use crate::monitors::Violation;
use crate::profiles::*;
use crate::report::*;
use crate::runner::*;
use crate::sim::*;
use serde_json::{json, Map, Value};
use std::collections::{BTreeMap, HashMap, HashSet};
use std::sync::{Arc, Mutex};
use std::time::Instant;

pub struct Plan {
    pub id: &'static str,
    pub level: &'static str,
    pub cases_quick: u64,
    pub cases_thorough: u64,
    /// disconnect-point enumeration: (positions per base schedule in quick, in thorough; 0 = all)
    pub enumerate: Option<(usize, usize)>,
    /// extra generator families run in addition to the property's own (name, share per 100)
    pub extra_families: Vec<(&'static str, u64)>,
    /// counters of which at least one must be > 0 for an execution to count as non-trivial
    pub nontrivial: Vec<&'static str>,
    /// (counter, minimum summed over the whole run); below → inconclusive
    pub gates: Vec<(&'static str, usize)>,
    pub wrap_runs: (usize, usize),
    pub rule: &'static str,
    pub assumptions: Vec<&'static str>,
}

pub fn plan(id: &str) -> Option<Plan> {
    let common_assume = vec![
        "the verif facade is plumbing only (gneiss-mqtt/src/verif.rs)",
        "reference codec / broker / validator in /verif/harness were written from the OASIS texts",
        "the simulator's driver disciplines reproduce the call orders of the tokio and threaded driver loops",
    ];
    let p = match id {
        "C01" => Plan { id: "C01", level: "exploration", cases_quick: 40_000, cases_thorough: 1_500_000, enumerate: None, extra_families: vec![("C11", 15), ("C18", 10)], nontrivial: vec!["c01.completed_ok", "c01.completed_err"], gates: vec![("c01.completed_ok", 1000), ("c01.completed_err", 1000), ("c01.resets_checked", 1000), ("c01.final_acks_delivered", 5000), ("c01.failing_pubrecs_delivered", 20), ("c01.successes_after_final_ack", 5000)], wrap_runs: (0, 0),
            rule: "seeded engine simulations (random operations, broker policies incl. late/duplicated/wrong-type/unknown-id acks, closes at random steps, buffer sizes 4..8192, mid-run and final reset); non-trivial = at least one completion observed; distinct = distinct event-kind sequences", assumptions: common_assume },
        "C02" => Plan { id: "C02", level: "exploration", cases_quick: 20_000, cases_thorough: 600_000, enumerate: None, extra_families: vec![("C16", 30), ("C17", 20), ("C07", 20)], nontrivial: vec!["c02.wire_packets"], gates: vec![("c02.wire_packets", 100_000)], wrap_runs: (0, 0),
            rule: "engine simulations: every packet the engine emits in any history is decoded by the strict reference decoder and, for user operations, compared with what was submitted", assumptions: common_assume },
        "C04" => Plan { id: "C04", level: "fault_enumeration", cases_quick: 1_200, cases_thorough: 40_000, enumerate: Some((40, 0)), extra_families: vec![], nontrivial: vec!["c04.publishes_seen"], gates: vec![("c04.retransmissions", 200), ("c04.pubrel_resumptions", 20), ("c04.first_transmissions", 1000)], wrap_runs: (0, 0),
            rule: "for each seeded base schedule (QoS1/2 publishes, 2..6 connections, session present/absent per reconnect) the run is repeated with a transport failure forced at each recorded step (quick: 40 sampled steps per schedule, thorough: every step); non-trivial = a QoS>0 PUBLISH reached the wire; distinct = distinct event-kind sequences", assumptions: common_assume },
        "C05" => Plan { id: "C05", level: "exploration", cases_quick: 30_000, cases_thorough: 1_000_000, enumerate: None, extra_families: vec![], nontrivial: vec!["c05.inbound_publishes"], gates: vec![("c05.inbound_publishes", 5000), ("c05.acks_seen", 3000), ("c05.qos2_duplicates_suppressed", 50), ("c05.inbound_pubrels", 500)], wrap_runs: (0, 0),
            rule: "broker-initiated PUBLISH (QoS 0/1/2, DUP, repeated ids) and PUBREL interleaved with client traffic, tiny buffers, closes and session resumption; non-trivial = an inbound PUBLISH was delivered", assumptions: common_assume },
        "C06" => Plan { id: "C06", level: "exploration", cases_quick: 12_000, cases_thorough: 400_000, enumerate: None, extra_families: vec![("C18", 20)], nontrivial: vec!["c06.ids_seen"], gates: vec![("c06.ids_seen", 20_000), ("c06.quiescent_all_resolved", 500), ("c06.saw_max_id", 1)], wrap_runs: (2, 16),
            rule: "mixed workloads with timeouts, validation failures after id binding, closes and both session outcomes, plus long runs of >66000 acknowledged operations so that the allocator wraps past 65535; non-trivial = a packet id was observed on the wire", assumptions: common_assume },
        "C07" => Plan { id: "C07", level: "exploration", cases_quick: 40_000, cases_thorough: 1_500_000, enumerate: None, extra_families: vec![], nontrivial: vec!["c07.connections"], gates: vec![("c07.connections", 20_000), ("c07.negotiated_settings_checked", 3000), ("c07.deadline_services", 100), ("c07.early_connacks", 100)], wrap_runs: (0, 0),
            rule: "handshake simulations: random connect options x rejoin policies x earlier successes/failures, output buffers 4..4096 bytes, operations and stop requests during the handshake, server replies = success / failing / silent / early / other packet; non-trivial = a connection was opened and a CONNECT observed", assumptions: common_assume },
        "C08" => Plan { id: "C08", level: "exploration", cases_quick: 40_000, cases_thorough: 1_500_000, enumerate: None, extra_families: vec![("C10", 10)], nontrivial: vec!["c08.audited_services", "c08.quiescent_points"], gates: vec![("c08.audited_services", 10_000), ("c08.quiescent_points", 3000)], wrap_runs: (0, 0),
            rule: "timer-only driver (services only at reported times) against a responsive broker for the progress rule; contract driver with an extra audit service whenever the engine reports nothing due for the first-sentence rule; multi-write packets, receive maximum, drain policies, reconnects; non-trivial = an audited service call or a quiescent point was evaluated", assumptions: common_assume },
        "C09" => Plan { id: "C09", level: "exploration", cases_quick: 25_000, cases_thorough: 800_000, enumerate: None, extra_families: vec![], nontrivial: vec!["c09.flows_counted"], gates: vec![("c09.window_full", 2000), ("c09.slow_start_evaluated", 300)], wrap_runs: (0, 0),
            rule: "receive maximum in {1,2,3,10,absent}, bursts of QoS1/2 publishes, delayed and reordered acks, resumed sessions with retransmissions, one-at-a-time drain policy; non-trivial = a QoS>0 flow was counted", assumptions: common_assume },
        "C10" => Plan { id: "C10", level: "exploration", cases_quick: 6_000, cases_thorough: 200_000, enumerate: None, extra_families: vec![], nontrivial: vec!["c10.first_appearances"], gates: vec![("c10.first_appearances", 100_000), ("c10.retransmissions_ordered", 300)], wrap_runs: (0, 0),
            rule: "20..400 operations per history with closes at random steps (queues have been pushed/popped thousands of times), both session outcomes, all policies, receive-maximum stalls; non-trivial = a first appearance was order-checked", assumptions: common_assume },
        "C11" => Plan { id: "C11", level: "exploration", cases_quick: 60_000, cases_thorough: 3_000_000, enumerate: None, extra_families: vec![("C11H", 35), ("C07", 10)], nontrivial: vec!["c02.wire_packets"], gates: vec![("c11.post_error_probes", 2000), ("c11.pingresp_while_disconnect_pending", 5), ("c11.ack_while_disconnect_pending", 20)], wrap_runs: (0, 0),
            rule: "chaotic driver: hostile acks (wrong type, unknown id), CONNACK at any time, AUTH, mutated/garbage bytes, data while writes are pending, extreme configuration values; plus honest-broker executions (every legal reason code, slow acks) for the never-accused rule; non-trivial = the client emitted at least one packet", assumptions: common_assume },
        "C14" => Plan { id: "C14", level: "exploration", cases_quick: 30_000, cases_thorough: 1_000_000, enumerate: None, extra_families: vec![], nontrivial: vec!["c14.pings_seen"], gates: vec![("c14.pings_seen", 5000), ("c14.keepalive_timeouts", 500), ("c14.pingresp_before_deadline", 2000)], wrap_runs: (0, 0),
            rule: "virtual clock, prompt contract driver, writes complete instantly; K in {0,1,2,3,5,7,59,60,61,1199,1200,65535} from client and/or server, ping timeouts around K/2, PINGRESP delays around the deadline or withheld; non-trivial = a PINGREQ was observed", assumptions: common_assume },
        "C15" => Plan { id: "C15", level: "fault_enumeration", cases_quick: 1_200, cases_thorough: 40_000, enumerate: Some((40, 0)), extra_families: vec![], nontrivial: vec!["c15.offline_submissions", "c15.rejected_at_close", "c15.in_flight_retained"], gates: vec![("c15.offline_submissions", 1000), ("c15.rejected_at_close", 500), ("c15.in_flight_retained", 300), ("c15.no_session_policy_applied", 30)], wrap_runs: (0, 0),
            rule: "4 policies x 5 operation kinds; for each seeded base schedule a transport failure is forced at each recorded step (quick: 40 sampled, thorough: all) so that every position (queued, half written, written unflushed, unacknowledged) is hit; session present/absent per reconnect; submissions in every non-connected state; non-trivial = the policy table was consulted", assumptions: common_assume },
        "C16" => Plan { id: "C16", level: "exploration", cases_quick: 25_000, cases_thorough: 800_000, enumerate: None, extra_families: vec![], nontrivial: vec!["c16.wire_checked"], gates: vec![("c16.wire_checked", 30_000), ("c16.send_time_rejections", 1000), ("c16.static_mustreject", 300)], wrap_runs: (0, 0),
            rule: "engine simulations under random CONNACK capabilities (maximum packet size, maximum QoS, retain / wildcard / shared / subscription-identifier availability); every operation on the wire is re-validated by an independent spec validator; non-trivial = an operation was re-validated on the wire", assumptions: common_assume },
        "C17" => Plan { id: "C17", level: "exploration", cases_quick: 30_000, cases_thorough: 1_000_000, enumerate: None, extra_families: vec![], nontrivial: vec!["c17.out_alias_used", "c17.in_alias_used"], gates: vec![("c17.out_alias_used", 5000), ("c17.out_alias_only", 1000), ("c17.in_alias_used", 2000), ("c17.in_invalid", 100)], wrap_runs: (0, 0),
            rule: "null / manual / LRU(n) resolvers over topic sets smaller and larger than n and than the server maximum, operations failing last-chance validation after resolution, closes, reconnects; inbound alias / alias+topic / rebinding / unknown / zero / out-of-range sequences; non-trivial = an alias was used in either direction", assumptions: common_assume },
        "C18" => Plan { id: "C18", level: "exploration", cases_quick: 30_000, cases_thorough: 1_000_000, enumerate: None, extra_families: vec![], nontrivial: vec!["c18.timeouts_armed", "c18.retry_limit_due"], gates: vec![("c18.ack_timeouts_fired", 2000), ("c18.retry_limit_fired", 200), ("c18.timeouts_armed", 10_000)], wrap_runs: (0, 0),
            rule: "virtual clock; T in {0,1,10,250,5000,3600000} ms, retry limits {none,0,1,2,5}, ack delays distributed around the deadline, withheld acks, multi-write packets, QoS2 handshakes, closes with partial progress; non-trivial = a timeout was armed or a retry limit became due", assumptions: common_assume },
        _ => return None,
    };
    Some(p)
}

#[derive(Default)]
struct Agg {
    evaluations: usize,
    steps: usize,
    nontrivial_hashes: HashSet<u64>,
    all_hashes: HashSet<u64>,
    counters: BTreeMap<String, usize>,
    events_by_kind: [usize; 11],
    pairs: HashSet<(u8, u8)>,
    close_positions: BTreeMap<String, usize>,
    errors_by_kind: BTreeMap<String, usize>,
    broker: BTreeMap<&'static str, usize>,
    samples: Vec<Value>,
    found: Vec<(Violation, Value)>,
    found_keys: HashMap<String, usize>,
    harness: Vec<String>,
    stronger_slow_start: usize,
    quiescent: usize,
    poisoned: usize,
}

pub fn case_json(case: &Case, flags: (bool, bool, bool)) -> Value {
    json!({"seed": case.seed, "engine": engine_spec_json(&case.engine), "buf_capacity": case.buf_capacity, "broker": broker_profile_json(&case.broker),
        "sim": {"discipline": format!("{:?}", case.sim.discipline), "n_ops": case.sim.n_ops, "close_permille": case.sim.close_permille, "forced_close_steps": case.sim.forced_close_steps, "prompt": case.sim.prompt, "audit": case.sim.audit},
        "monitor_flags": {"honest": flags.0, "responsive": flags.1, "keepalive_mode": flags.2}})
}

pub fn case_from_json(v: &Value) -> Case {
    let f = &v["monitor_flags"];
    Case {
        seed: v["seed"].as_u64().unwrap_or(0),
        engine: engine_spec_from(&v["engine"]),
        broker: crate::broker::BrokerProfile::default(),
        sim: SimProfile::default(),
        buf_capacity: v["buf_capacity"].as_u64().unwrap_or(4096) as usize,
        force_flags: Some((f["honest"].as_bool().unwrap_or(true), f["responsive"].as_bool().unwrap_or(false), f["keepalive_mode"].as_bool().unwrap_or(false))),
    }
}

fn sample_of(case: &Case, r: &RunResult) -> Value {
    let wire: Vec<Value> = r.world.conns.iter().map(|c| {
        let out: Vec<String> = c.emitted.iter().take(40).map(|w| match &w.packet {
            crate::refmqtt::Packet::Publish(p) => format!("PUBLISH(q{},id{},dup{},tag{:?})", p.qos, p.packet_id.unwrap_or(0), p.dup as u8, w.tag),
            crate::refmqtt::Packet::Pubrel(a) => format!("PUBREL({})", a.packet_id),
            crate::refmqtt::Packet::Puback(a) => format!("PUBACK({})", a.packet_id),
            crate::refmqtt::Packet::Pubrec(a) => format!("PUBREC({})", a.packet_id),
            crate::refmqtt::Packet::Pubcomp(a) => format!("PUBCOMP({})", a.packet_id),
            crate::refmqtt::Packet::Subscribe(s) => format!("SUBSCRIBE(id{},n{})", s.packet_id, s.subscriptions.len()),
            crate::refmqtt::Packet::Unsubscribe(s) => format!("UNSUBSCRIBE(id{},n{})", s.packet_id, s.filters.len()),
            other => other.kind().to_string(),
        }).collect();
        let inb: Vec<String> = c.inbound.iter().take(40).map(|i| i.packet.kind().to_string()).collect();
        json!({"client_to_server": out, "server_to_client": inb, "session_present": c.connack.as_ref().map(|k| k.session_present), "closed_at_step": c.close_step})
    }).collect();
    let ops: Vec<Value> = r.world.ops.iter().take(30).map(|o| json!({"tag": o.tag, "kind": o.kind.name(), "results": o.completions.iter().map(|c| c.2.short()).collect::<Vec<_>>()})).collect();
    let kinds: Vec<&str> = r.events.iter().take(80).map(|e| e.kind()).collect();
    json!({"config": case_json(case, r.flags), "steps": r.steps, "first_events": kinds, "connections": wire, "operations": ops, "close_positions": r.close_positions})
}

fn absorb(agg: &mut Agg, plan: &Plan, case: &Case, r: RunResult) {
    agg.evaluations += 1;
    agg.steps += r.steps;
    if r.quiescent { agg.quiescent += 1; }
    if r.poisoned { agg.poisoned += 1; }
    let nontrivial = plan.nontrivial.iter().any(|k| r.counters.get(k).copied().unwrap_or(0) > 0);
    agg.all_hashes.insert(r.kind_hash);
    if nontrivial {
        let fresh = agg.nontrivial_hashes.insert(r.kind_hash);
        if fresh && agg.samples.len() < 3 && r.steps > 10 { agg.samples.push(sample_of(case, &r)); }
    }
    for (k, v) in &r.counters { *agg.counters.entry(k.to_string()).or_insert(0) += v; }
    for i in 0..11 { agg.events_by_kind[i] += r.stats.events_by_kind[i]; }
    for p in &r.stats.state_event_pairs { agg.pairs.insert(*p); }
    for p in &r.close_positions { *agg.close_positions.entry(p.clone()).or_insert(0) += 1; }
    for (k, v) in &r.stats.errors_by_kind { *agg.errors_by_kind.entry(k.clone()).or_insert(0) += v; }
    agg.stronger_slow_start += r.stronger_slow_start_hits;
    let b = &r.broker_stats;
    for (k, v) in [("connacks_ok", b.connacks_ok), ("connacks_fail", b.connacks_fail), ("connacks_silent", b.connacks_silent), ("sessions_resumed", b.sessions_resumed), ("acks_sent", b.acks_sent), ("acks_withheld", b.acks_withheld), ("negative_acks", b.negative_acks), ("inbound_sent", b.inbound_sent), ("inbound_repeats", b.inbound_repeats), ("inbound_bad_alias", b.inbound_bad_alias), ("hostile_sent", b.hostile_sent), ("garbage_sent", b.garbage_sent), ("pingresps", b.pingresps), ("pings_withheld", b.pings_withheld), ("server_disconnects", b.server_disconnects)] {
        *agg.broker.entry(k).or_insert(0) += v;
    }
    for v in r.violations {
        if v.property == "HARNESS" {
            if agg.harness.len() < 5 { agg.harness.push(v.detail.clone()); }
            continue;
        }
        if v.property != plan.id { continue; }
        let key = format!("{}|{:?}", v.rule, v.signature);
        if let Some(i) = agg.found_keys.get(&key) {
            if let Some(n) = agg.found[*i].1.get_mut("occurrences") { *n = json!(n.as_u64().unwrap_or(1) + 1); }
            continue;
        }
        // keep the shortest-known witness per key: first one
        let upto = usize::min(r.events.len(), v.step + 1);
        let replay = json!({"kind": "engine-sim", "case": case_json(case, r.flags), "events": r.events[..upto].iter().map(event_json).collect::<Vec<_>>(), "violation_step": v.step, "occurrences": 1});
        agg.found_keys.insert(key, agg.found.len());
        agg.found.push((v, replay));
    }
}

fn merge(into: &mut Agg, from: Agg) {
    into.evaluations += from.evaluations;
    into.steps += from.steps;
    into.quiescent += from.quiescent;
    into.poisoned += from.poisoned;
    into.nontrivial_hashes.extend(from.nontrivial_hashes);
    into.all_hashes.extend(from.all_hashes);
    for (k, v) in from.counters { *into.counters.entry(k).or_insert(0) += v; }
    for i in 0..11 { into.events_by_kind[i] += from.events_by_kind[i]; }
    into.pairs.extend(from.pairs);
    for (k, v) in from.close_positions { *into.close_positions.entry(k).or_insert(0) += v; }
    for (k, v) in from.errors_by_kind { *into.errors_by_kind.entry(k).or_insert(0) += v; }
    for (k, v) in from.broker { *into.broker.entry(k).or_insert(0) += v; }
    for s in from.samples { if into.samples.len() < 3 { into.samples.push(s); } }
    into.stronger_slow_start += from.stronger_slow_start;
    for h in from.harness { if into.harness.len() < 5 { into.harness.push(h); } }
    for (v, replay) in from.found {
        let key = format!("{}|{:?}", v.rule, v.signature);
        if let Some(i) = into.found_keys.get(&key) {
            let add = replay["occurrences"].as_u64().unwrap_or(1);
            if let Some(n) = into.found[*i].1.get_mut("occurrences") { *n = json!(n.as_u64().unwrap_or(1) + add); }
        } else {
            into.found_keys.insert(key, into.found.len());
            into.found.push((v, replay));
        }
    }
}

fn family_for(plan: &Plan, idx: u64) -> &'static str {
    let mut x = idx % 100;
    for (name, share) in &plan.extra_families {
        if x < *share { return name; }
        x -= share;
    }
    plan.id
}

pub fn run_engine_check(id: &str, tier: &str, seed: u64, budget_s: u64) -> i32 {
    match engine_report(id, tier, seed, budget_s) { Some(r) => r.finish(), None => { println!("INCONCLUSIVE property={} reason=no-plan", id); 3 } }
}

pub fn engine_report(id: &str, tier: &str, seed: u64, budget_s: u64) -> Option<Report> {
    let plan = plan(id)?;
    let quick = tier != "thorough";
    let start = Instant::now();
    let threads = std::thread::available_parallelism().map(|n| n.get()).unwrap_or(8).min(16);
    let total_cases = if quick { plan.cases_quick } else { plan.cases_thorough };
    let positions = plan.enumerate.map(|(q, t)| if quick { q } else { t });
    let wrap_runs = if quick { plan.wrap_runs.0 } else { plan.wrap_runs.1 };
    let plan = Arc::new(plan);
    let global = Arc::new(Mutex::new(Agg::default()));
    let next = Arc::new(std::sync::atomic::AtomicU64::new(0));
    let deadline = start + std::time::Duration::from_secs(budget_s);
    let timed_out = Arc::new(std::sync::atomic::AtomicBool::new(false));

    let mut handles = Vec::new();
    for _t in 0..threads {
        let plan = plan.clone();
        let global = global.clone();
        let next = next.clone();
        let timed_out = timed_out.clone();
        handles.push(std::thread::Builder::new().stack_size(64 << 20).spawn(move || {
            install_panic_hook();
            let mut agg = Agg::default();
            loop {
                let idx = next.fetch_add(1, std::sync::atomic::Ordering::SeqCst);
                if idx >= total_cases + wrap_runs as u64 { break; }
                if Instant::now() > deadline { timed_out.store(true, std::sync::atomic::Ordering::SeqCst); break; }
                if idx >= total_cases {
                    // wrap-around runs
                    let case = wrap_case(seed, idx, 66_500);
                    let r = Sim::new(case.clone()).run();
                    absorb(&mut agg, &plan, &case, r);
                    continue;
                }
                let family = family_for(&plan, idx);
                let case = gen_case(family, seed, idx);
                match positions {
                    None => {
                        let r = Sim::new(case.clone()).run();
                        absorb(&mut agg, &plan, &case, r);
                    }
                    Some(npos) => {
                        let base = Sim::new(case.clone()).run();
                        let n = base.steps;
                        absorb(&mut agg, &plan, &case, base);
                        let mut prng = crate::rng::Rng::derive(seed, idx, 0xE17);
                        let ks: Vec<usize> = if npos == 0 || n <= npos { (1..n).collect() } else { (0..npos).map(|_| prng.range(1, (n - 1) as u64) as usize).collect() };
                        for k in ks {
                            if Instant::now() > deadline { timed_out.store(true, std::sync::atomic::Ordering::SeqCst); break; }
                            let mut c2 = case.clone();
                            c2.sim.forced_close_steps = vec![k];
                            let r = Sim::new(c2.clone()).run();
                            let n1 = r.steps;
                            absorb(&mut agg, &plan, &c2, r);
                            // second level: for a third of the first-level positions, a second
                            // failure at (sampled / all) later steps of the same history
                            if n1 > k + 2 && prng.chance(1, 3) {
                                let span = n1 - k - 1;
                                let k2s: Vec<usize> = if npos == 0 { ((k + 1)..n1).collect() } else { (0..usize::min(12, span)).map(|_| k + 1 + prng.below(span as u64) as usize).collect() };
                                for k2 in k2s {
                                    if Instant::now() > deadline { timed_out.store(true, std::sync::atomic::Ordering::SeqCst); break; }
                                    let mut c3 = case.clone();
                                    c3.sim.forced_close_steps = vec![k, k2];
                                    let r = Sim::new(c3.clone()).run();
                                    absorb(&mut agg, &plan, &c3, r);
                                }
                            }
                        }
                    }
                }
            }
            let mut g = global.lock().unwrap();
            merge(&mut g, agg);
        }).unwrap());
    }
    for h in handles { let _ = h.join(); }
    let agg = std::mem::take(&mut *global.lock().unwrap());

    let mut rep = Report::new(id, tier, seed, plan.level);
    rep.evaluations = agg.evaluations;
    rep.distinct_nontrivial = agg.nontrivial_hashes.len();
    rep.rule = plan.rule.to_string();
    rep.samples = agg.samples.clone();
    rep.assumptions = plan.assumptions.iter().map(|s| s.to_string()).collect();
    let mut extra = Map::new();
    extra.insert("steps_total".into(), json!(agg.steps));
    extra.insert("distinct_event_kind_sequences".into(), json!(agg.all_hashes.len()));
    let kinds = ["", "submit", "submit-disconnect", "open", "close", "deliver", "write", "write-complete", "service", "advance", "reset"];
    let mut ek = Map::new();
    for i in 1..11 { ek.insert(kinds[i].into(), json!(agg.events_by_kind[i])); }
    extra.insert("events_by_kind".into(), Value::Object(ek));
    extra.insert("distinct_engine_state_x_event_kind_pairs".into(), json!(agg.pairs.len()));
    extra.insert("rule_evaluations".into(), json!(agg.counters));
    extra.insert("close_positions_hit".into(), json!(agg.close_positions));
    extra.insert("entry_point_errors_by_kind".into(), json!(agg.errors_by_kind));
    extra.insert("broker_behaviour".into(), json!(agg.broker));
    extra.insert("executions_reaching_quiescence".into(), json!(agg.quiescent));
    extra.insert("executions_ended_by_panic".into(), json!(agg.poisoned));
    extra.insert("threads".into(), json!(threads));
    extra.insert("wall_budget_s".into(), json!(budget_s));
    extra.insert("wall_budget_reached".into(), json!(timed_out.load(std::sync::atomic::Ordering::SeqCst)));
    extra.insert("base_cases_planned".into(), json!(total_cases));
    extra.insert("base_cases_started".into(), json!(next.load(std::sync::atomic::Ordering::SeqCst).min(total_cases)));
    if id == "C09" { extra.insert("stronger_slow_start_reading_would_fire".into(), json!(agg.stronger_slow_start)); }
    rep.extra = extra;
    for (k, min) in &plan.gates {
        let have = agg.counters.get(*k).copied().unwrap_or(0);
        let min = if quick { *min } else { *min * 10 };
        if have < min && !timed_out.load(std::sync::atomic::Ordering::SeqCst) {
            rep.inconclusive.push(format!("coverage-gate:{}={}<{}", k, have, min));
        }
    }
    if timed_out.load(std::sync::atomic::Ordering::SeqCst) && agg.evaluations < (total_cases / 20) as usize {
        rep.inconclusive.push(format!("watchdog: only {} of {} cases ran within {} s", agg.evaluations, total_cases, budget_s));
    }
    for h in &agg.harness { rep.inconclusive.push(format!("harness-bookkeeping:{}", h)); }
    for (v, replay) in agg.found {
        let occ = replay["occurrences"].as_u64().unwrap_or(1) as usize;
        rep.add_found(v.rule, v.signature.clone(), v.detail.clone(), replay);
        if let Some(f) = rep.found.last_mut() { f.occurrences = occ; }
    }
    rep.wall_s = start.elapsed().as_secs_f64();
    Some(rep)
}

/// Re-executes the event list stored in a replay file and prints what the monitors say.
pub fn run_replay(path: &str) -> i32 {
    let text = match std::fs::read_to_string(path) { Ok(t) => t, Err(e) => { println!("cannot read {}: {}", path, e); return 2; } };
    let doc: Value = match serde_json::from_str(&text) { Ok(v) => v, Err(e) => { println!("cannot parse {}: {}", path, e); return 2; } };
    let rp = &doc["replay"];
    match rp["kind"].as_str() {
        Some("engine-sim") => {
            let case = case_from_json(&rp["case"]);
            let events: Vec<Event> = rp["events"].as_array().map(|a| a.iter().filter_map(event_from).collect()).unwrap_or_default();
            println!("replaying {} events against the real engine", events.len());
            if std::env::var("VERIF_TRACE").is_ok() {
                let mut sim = Sim::new(case.clone());
                for e in &events {
                    if sim.runner.poisoned { break; }
                    let rec = sim.step(e.clone());
                    let ev = match &rec.event { Event::Deliver(b) => format!("deliver[{}]", hex(b)), Event::Write(k) => format!("write({})", k), Event::Advance(d) => format!("advance({})", d), Event::Submit(o) => format!("submit(tag {} {})", o.tag, crate::world::op_kind(o).name()), other => other.kind().to_string() };
                    println!("  #{:<4} t={:<8} {:<40} -> {:?} emitted={}:{} completions={:?} state={:?} next={:?} {}", rec.index, rec.time_ms, ev, rec.result, rec.emitted.len(), hex(&rec.emitted[..usize::min(12, rec.emitted.len())]), rec.completions.iter().map(|c| (c.0, c.1.short())).collect::<Vec<_>>(), rec.state_after, rec.next_service_ms, if std::env::var("VERIF_TRACE").map(|v| v == "2").unwrap_or(false) { let sn = sim.runner.snapshot(); format!("ops={} hq={:?} cur={:?} pp={} pnp={} pwco={} pwc={} rq={:?} uq={:?}", sn.operations, sn.high_priority_queue_ids, sn.current_operation.as_ref().map(|c| (c.id, c.packet_type.clone(), c.exists)), sn.pending_publish, sn.pending_non_publish, sn.pending_write_completion_operations, sn.pending_write_completion, sn.resubmit_queue_ids, sn.user_queue_ids.len()) } else { String::new() });
                }
            }
            let r = replay(&case, &events);
            let want_rule = doc["rule"].as_str().unwrap_or("");
            let mut hit = false;
            for v in &r.violations {
                println!("  {} {} {:?} step {} :: {}", v.property, v.rule, v.signature, v.step, v.detail);
                if v.rule == want_rule { hit = true; }
            }
            if hit {
                println!("VIOLATION property={} replay={}", doc["property"].as_str().unwrap_or("?"), path);
                1
            } else {
                println!("replay did not reproduce rule {}", want_rule);
                0
            }
        }
        Some(other) => crate::fuzz::replay_other(other, &doc, path),
        None => { println!("unknown replay kind"); 2 }
    }
}
