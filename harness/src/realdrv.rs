//! C13: the real tokio and threaded clients (public API) on scripted in-memory transports, and the
//! threaded websocket stream wrapper over an in-memory pipe.

use crate::fuzz::*;
use crate::refmqtt as rf;
use crate::rng::Rng;
use crate::runner::*;
use crate::world::{payload_tag, payload_token, tagged_payload, token_payload};
use gneiss_mqtt::client::config::*;
use gneiss_mqtt::client::*;
use gneiss_mqtt::error::GneissError;
use gneiss_mqtt::verif as gv;
use serde_json::{json, Value};
use std::collections::{HashMap, VecDeque};
use std::io::{Read, Write};
use std::panic::{catch_unwind, AssertUnwindSafe};
use std::sync::{Arc, Mutex};
use std::task::{Poll, Waker};
use std::time::{Duration, Instant};

/* ---------------------------------------------------------------------------------------- */
/* scripted transport                                                                         */
/* ---------------------------------------------------------------------------------------- */

#[derive(Clone, Copy, Debug, PartialEq, Eq)]
pub enum Fault { None, EofAfterReads(usize), ReadError(usize), WriteError(usize) }

/// Wall-clock patience for "this should have happened by now" on the real drivers. Every such wait
/// ends as soon as the awaited fact is observed, so the bound only costs time when something is wrong;
/// it is long so that a starved thread on a loaded machine is not mistaken for a stuck one.
const PATIENCE_S: u64 = 20;

pub struct PipeState {
    rng: Rng,
    v5: bool,
    pub c2s_all: Vec<u8>,
    decoder: rf::StreamDecoder,
    pub packets: Vec<rf::Packet>,
    s2c: VecDeque<u8>,
    pub s2c_delivered: Vec<u8>,
    read_waker: Option<Waker>,
    eof: bool,
    fault: Fault,
    reads: usize,
    write_calls: usize,
    pub write_chunk_max: usize,
    pub read_chunk_max: usize,
    pub stall_pct: u64,
    inbound_to_send: usize,
    next_token: u64,
    pub inbound_sent: Vec<u64>,
    pub closed_by_client: bool,
    pub partial_writes: usize,
    pub would_blocks: usize,
    pub answer: bool,
}

impl PipeState {
    fn new(seed: u64, v5: bool, fault: Fault, inbound: usize, token_base: u64) -> PipeState {
        let mut rng = Rng::new(seed);
        let write_chunk_max = *rng.pick(&[1usize, 3, 17, 100, 5000, 100_000]);
        let read_chunk_max = *rng.pick(&[1usize, 2, 7, 64, 5000]);
        let stall_pct = *rng.pick(&[0u64, 10, 40]);
        let mut d = rf::StreamDecoder::new(v5);
        d.compat = true;
        PipeState { rng, v5, c2s_all: Vec::new(), decoder: d, packets: Vec::new(), s2c: VecDeque::new(), s2c_delivered: Vec::new(), read_waker: None, eof: false, fault, reads: 0, write_calls: 0,
            write_chunk_max, read_chunk_max, stall_pct, inbound_to_send: inbound, next_token: token_base, inbound_sent: Vec::new(), closed_by_client: false, partial_writes: 0, would_blocks: 0, answer: true }
    }

    fn enc(&self, p: rf::Packet) -> Vec<u8> { rf::encode(&p, self.v5, &rf::Knobs::default()) }

    fn on_bytes(&mut self, bytes: &[u8]) {
        self.c2s_all.extend_from_slice(bytes);
        let framed = self.decoder.feed(bytes);
        for f in framed {
            let reply: Vec<u8> = if !self.answer { Vec::new() } else {
                match &f.packet {
                    rf::Packet::Connect(_) => {
                        let mut out = self.enc(rf::Packet::Connack(rf::Connack::default()));
                        for _ in 0..self.inbound_to_send {
                            let t = self.next_token;
                            self.next_token += 1;
                            self.inbound_sent.push(t);
                            let n = *self.rng.pick(&[0usize, 10, 3000, 9000]);
                            let extra = self.rng.bytes(n);
                            out.extend(self.enc(rf::Packet::Publish(rf::Publish { qos: 0, topic: "in/x".into(), payload: token_payload(t, &extra), ..Default::default() })));
                        }
                        self.inbound_to_send = 0;
                        out
                    }
                    rf::Packet::Publish(p) if p.qos == 1 => self.enc(rf::Packet::Puback(rf::Ack { packet_id: p.packet_id.unwrap_or(1), ..Default::default() })),
                    rf::Packet::Publish(p) if p.qos == 2 => self.enc(rf::Packet::Pubrec(rf::Ack { packet_id: p.packet_id.unwrap_or(1), ..Default::default() })),
                    rf::Packet::Pubrel(a) => self.enc(rf::Packet::Pubcomp(rf::Ack { packet_id: a.packet_id, ..Default::default() })),
                    rf::Packet::Subscribe(s) => self.enc(rf::Packet::Suback(rf::Suback { packet_id: s.packet_id, codes: vec![0; s.subscriptions.len()], ..Default::default() })),
                    rf::Packet::Unsubscribe(u) => self.enc(rf::Packet::Unsuback(rf::Unsuback { packet_id: u.packet_id, codes: if self.v5 { vec![0; u.filters.len()] } else { vec![] }, ..Default::default() })),
                    rf::Packet::Pingreq => vec![0xD0, 0],
                    rf::Packet::Disconnect(_) => { self.eof = true; Vec::new() }
                    _ => Vec::new(),
                }
            };
            self.packets.push(f.packet);
            self.s2c.extend(reply);
        }
        if let Some(w) = self.read_waker.take() { w.wake(); }
    }

    /// shared write logic: Ok(n) accepted, Err(WouldBlock) or fatal error
    fn do_write(&mut self, buf: &[u8]) -> std::io::Result<usize> {
        self.write_calls += 1;
        if let Fault::WriteError(n) = self.fault { if self.c2s_all.len() >= n { return Err(std::io::Error::new(std::io::ErrorKind::BrokenPipe, "scripted write error")); } }
        if buf.is_empty() { return Ok(0); }
        if self.rng.chance(self.stall_pct, 100) { self.would_blocks += 1; return Err(std::io::Error::new(std::io::ErrorKind::WouldBlock, "scripted stall")); }
        let k = usize::min(buf.len(), self.rng.range(1, self.write_chunk_max as u64) as usize);
        if k < buf.len() { self.partial_writes += 1; }
        self.on_bytes(&buf[..k]);
        Ok(k)
    }

    /// shared read logic: Ok(0) = EOF
    fn do_read(&mut self, buf: &mut [u8]) -> std::io::Result<usize> {
        self.reads += 1;
        match self.fault {
            Fault::EofAfterReads(n) if self.reads > n => return Ok(0),
            Fault::ReadError(n) if self.reads > n => return Err(std::io::Error::new(std::io::ErrorKind::ConnectionReset, "scripted read error")),
            _ => {}
        }
        if self.s2c.is_empty() {
            if self.eof { return Ok(0); }
            return Err(std::io::Error::new(std::io::ErrorKind::WouldBlock, "no data"));
        }
        let k = usize::min(usize::min(buf.len(), self.s2c.len()), self.rng.range(1, self.read_chunk_max as u64) as usize);
        for i in 0..k { let b = self.s2c.pop_front().unwrap(); buf[i] = b; self.s2c_delivered.push(b); }
        Ok(k)
    }
}

#[derive(Clone)]
pub struct MemStream { pub state: Arc<Mutex<PipeState>> }

impl Read for MemStream {
    fn read(&mut self, buf: &mut [u8]) -> std::io::Result<usize> { self.state.lock().unwrap().do_read(buf) }
}
impl Write for MemStream {
    fn write(&mut self, buf: &[u8]) -> std::io::Result<usize> { self.state.lock().unwrap().do_write(buf) }
    fn flush(&mut self) -> std::io::Result<()> { Ok(()) }
}
impl Drop for MemStream {
    fn drop(&mut self) { if let Ok(mut s) = self.state.lock() { s.closed_by_client = true; } }
}

impl tokio::io::AsyncRead for MemStream {
    fn poll_read(self: std::pin::Pin<&mut Self>, cx: &mut std::task::Context<'_>, buf: &mut tokio::io::ReadBuf<'_>) -> Poll<std::io::Result<()>> {
        let mut s = self.state.lock().unwrap();
        let mut tmp = vec![0u8; buf.remaining()];
        match s.do_read(&mut tmp) {
            Ok(n) => { buf.put_slice(&tmp[..n]); Poll::Ready(Ok(())) }
            Err(e) if e.kind() == std::io::ErrorKind::WouldBlock => { s.read_waker = Some(cx.waker().clone()); Poll::Pending }
            Err(e) => Poll::Ready(Err(e)),
        }
    }
}
impl tokio::io::AsyncWrite for MemStream {
    fn poll_write(self: std::pin::Pin<&mut Self>, cx: &mut std::task::Context<'_>, buf: &[u8]) -> Poll<std::io::Result<usize>> {
        let mut s = self.state.lock().unwrap();
        match s.do_write(buf) {
            Ok(n) => Poll::Ready(Ok(n)),
            Err(e) if e.kind() == std::io::ErrorKind::WouldBlock => { cx.waker().wake_by_ref(); Poll::Pending }
            Err(e) => Poll::Ready(Err(e)),
        }
    }
    fn poll_flush(self: std::pin::Pin<&mut Self>, _cx: &mut std::task::Context<'_>) -> Poll<std::io::Result<()>> { Poll::Ready(Ok(())) }
    fn poll_shutdown(self: std::pin::Pin<&mut Self>, _cx: &mut std::task::Context<'_>) -> Poll<std::io::Result<()>> { Poll::Ready(Ok(())) }
}

pub struct Hub {
    pub pipes: Mutex<Vec<Arc<Mutex<PipeState>>>>,
    seed: u64,
    v5: bool,
    plan: Mutex<Rng>,
    refuse_pct: u64,
    fault_pct: u64,
    inbound: usize,
}

impl Hub {
    fn connect(&self) -> Result<MemStream, GneissError> {
        let mut plan = self.plan.lock().unwrap();
        if plan.chance(self.refuse_pct, 100) { return Err(GneissError::new_other_error("scripted connection refused")); }
        let fault = if plan.chance(self.fault_pct, 100) {
            match plan.below(3) { 0 => Fault::EofAfterReads(plan.range(1, 40) as usize), 1 => Fault::ReadError(plan.range(1, 40) as usize), _ => Fault::WriteError(plan.range(1, 6000) as usize) }
        } else { Fault::None };
        let mut pipes = self.pipes.lock().unwrap();
        let n = pipes.len() as u64;
        let st = Arc::new(Mutex::new(PipeState::new(self.seed ^ (n + 1).wrapping_mul(0x9E37), self.v5, fault, self.inbound, 1 + n * 1000)));
        pipes.push(st.clone());
        Ok(MemStream { state: st })
    }
}

/* ---------------------------------------------------------------------------------------- */
/* scenario                                                                                    */
/* ---------------------------------------------------------------------------------------- */

struct OpRec { tag: u64, qos: u8, payload: Vec<u8>, kind: u8 }

fn gen_ops(r: &mut Rng, n: usize, first_tag: u64) -> Vec<OpRec> {
    (0..n).map(|i| {
        let tag = first_tag + i as u64;
        let kind = if r.chance(1, 6) { 1 } else if r.chance(1, 8) { 2 } else { 0 };
        let extra = { let n = *r.pick(&[0usize, 5, 100, 4090, 4096, 5000, 12000]); r.bytes(n) };
        OpRec { tag, qos: r.below(3) as u8, payload: tagged_payload(tag, &extra), kind }
    }).collect()
}

fn client_options(r: &mut Rng, v5: bool) -> MqttClientOptions {
    let mut b = MqttClientOptions::builder();
    b.with_protocol_mode(if v5 { ProtocolMode::Mqtt5 } else { ProtocolMode::Mqtt311 });
    b.with_offline_queue_policy(policy_of(*r.pick(&[0u8, 0, 1, 3])));
    b.with_base_reconnect_period(Duration::from_millis(1));
    b.with_max_reconnect_period(Duration::from_millis(5));
    b.with_reconnect_period_jitter(ExponentialBackoffJitterType::None);
    b.with_connect_timeout(Duration::from_secs(5));
    b.build()
}

fn check_streams(hub: &Hub, ops: &HashMap<u64, Vec<u8>>, l: &mut Local, driver: &str, replay: &Value) -> usize {
    let pipes = hub.pipes.lock().unwrap();
    let mut bytes_total = 0usize;
    for (ci, p) in pipes.iter().enumerate() {
        let s = p.lock().unwrap();
        bytes_total += s.c2s_all.len();
        l.add("c13.bytes_moved", s.c2s_all.len());
        l.add("c13.partial_writes", s.partial_writes);
        l.add("c13.would_blocks", s.would_blocks);
        if let Some(e) = &s.decoder.error {
            l.violation("C13.R1-outbound-stream-corrupted", &[("driver", driver.into()), ("decoder_rule", e.split(':').next().unwrap_or("?").to_string())], format!("connection {}: the bytes handed to the transport are not a well-formed MQTT stream: {} (after {} packets, {} bytes)", ci, e, s.packets.len(), s.c2s_all.len()), replay.clone());
            continue;
        }
        let mut seen_on_conn: HashMap<u64, usize> = HashMap::new();
        for pk in &s.packets {
            if let rf::Packet::Publish(pb) = pk {
                if let Some(tag) = payload_tag(&pb.payload) {
                    *seen_on_conn.entry(tag).or_insert(0) += 1;
                    match ops.get(&tag) {
                        Some(expected) if *expected == pb.payload => { l.count("c13.publishes_verified"); }
                        Some(_) => { l.violation("C13.R2-payload-differs", &[("driver", driver.into())], format!("connection {}: publish tag {} arrived with a different payload", ci, tag), replay.clone()); }
                        None => { l.violation("C13.R2-payload-differs", &[("driver", driver.into())], format!("connection {}: publish with unknown tag {}", ci, tag), replay.clone()); }
                    }
                }
            }
        }
        for (tag, n) in seen_on_conn { if n > 1 { l.violation("C13.R3-duplicated-on-connection", &[("driver", driver.into())], format!("connection {}: publish tag {} appears {} times", ci, tag, n), replay.clone()); } }
    }
    bytes_total
}

fn check_inbound(hub: &Hub, received: &[u64], l: &mut Local, driver: &str, replay: &Value) {
    // tokens fully delivered to the client, in order, per connection
    let pipes = hub.pipes.lock().unwrap();
    let mut expected = Vec::new();
    for p in pipes.iter() {
        let s = p.lock().unwrap();
        let mut d = rf::StreamDecoder::new(s.v5);
        for f in d.feed(&s.s2c_delivered) {
            if let rf::Packet::Publish(pb) = f.packet { if let Some(t) = payload_token(&pb.payload) { expected.push(t); } }
        }
    }
    l.add("c13.inbound_publishes", expected.len());
    if driver == "tokio" {
        // the tokio client hands each event to its own spawned task, so listeners may observe events in
        // any order on a multi-threaded runtime; only content (no loss of identity, no duplicates) is judged
        let mut exp = expected.clone();
        for t in received {
            match exp.iter().position(|e| e == t) {
                Some(i) => { exp.remove(i); }
                None => { l.violation("C13.R4-inbound-order-or-content", &[("driver", driver.into())], format!("received token {} which was never delivered (or was delivered once and surfaced twice)", t), replay.clone()); return; }
            }
        }
        return;
    }
    // The threaded client calls listeners synchronously on its loop thread, so what was surfaced is, per
    // connection, exactly a prefix of what was completely delivered on that connection (the tail may be
    // missing only because the loop ended first), and connections follow each other. Tokens are unique
    // and carry their connection: token = 1 + connection * 1000 + position.
    let mut per_conn: Vec<Vec<u64>> = Vec::new();
    for p in pipes.iter() {
        let s = p.lock().unwrap();
        let mut d = rf::StreamDecoder::new(s.v5);
        let mut v = Vec::new();
        for f in d.feed(&s.s2c_delivered) {
            if let rf::Packet::Publish(pb) = f.packet { if let Some(t) = payload_token(&pb.payload) { v.push(t); } }
        }
        per_conn.push(v);
    }
    let mut next_pos: Vec<usize> = vec![0; per_conn.len()];
    let mut last_conn = 0usize;
    for t in received {
        let c = ((*t - 1) / 1000) as usize;
        let ok = c < per_conn.len() && c >= last_conn && next_pos[c] < per_conn[c].len() && per_conn[c][next_pos[c]] == *t;
        if !ok {
            l.violation("C13.R4-inbound-order-or-content", &[("driver", driver.into())], format!("received token {} but on connection {} the next completely delivered publish is {:?} (delivered {:?}, received {:?})", t, c, per_conn.get(c).and_then(|v| v.get(next_pos.get(c).copied().unwrap_or(0))), per_conn.get(c).map(|v| &v[..usize::min(12, v.len())]), &received[..usize::min(12, received.len())]), replay.clone());
            return;
        }
        next_pos[c] += 1;
        last_conn = c;
    }
}

struct NoopWake;
impl std::task::Wake for NoopWake { fn wake(self: Arc<Self>) {} }

/// polls a future exactly once; true when it is ready
fn ready_now<F: std::future::Future + Unpin>(f: &mut F) -> bool {
    let waker: Waker = Arc::new(NoopWake).into();
    let mut cx = std::task::Context::from_waker(&waker);
    matches!(std::pin::Pin::new(f).poll(&mut cx), Poll::Ready(_))
}

fn is_channel_failure(e: &GneissError) -> bool { matches!(e, GneissError::OperationChannelFailure(_)) }


/* ---------------------------------------------------------------------------------------- */
/* websocket framing adapter: the real threaded client over the websocket stream wrapper      */
/* ---------------------------------------------------------------------------------------- */

/// Sits between tungstenite (client role, as created by the `ws_wrap` facade) and the scripted pipe:
/// client frames are unmasked and their payload handed to the pipe's mini-broker; the broker's bytes are
/// cut into binary messages of arbitrary size, several of which may be waiting at once.
pub struct WsAdapter { inner: MemStream, inbuf: Vec<u8>, out: VecDeque<u8>, rng: Rng }

impl WsAdapter {
    fn new(inner: MemStream, seed: u64) -> WsAdapter { WsAdapter { inner, inbuf: Vec::new(), out: VecDeque::new(), rng: Rng::new(seed) } }
}

/// removes one complete (possibly masked) frame from the front of `buf`
fn ws_take_frame(buf: &mut Vec<u8>) -> Option<(u8, Vec<u8>)> {
    if buf.len() < 2 { return None; }
    let op = buf[0] & 0x0F;
    let masked = buf[1] & 0x80 != 0;
    let mut len = (buf[1] & 0x7F) as usize;
    let mut i = 2;
    if len == 126 { if buf.len() < i + 2 { return None; } len = u16::from_be_bytes([buf[i], buf[i + 1]]) as usize; i += 2; }
    else if len == 127 { if buf.len() < i + 8 { return None; } len = u64::from_be_bytes(buf[i..i + 8].try_into().ok()?) as usize; i += 8; }
    let mut mask = [0u8; 4];
    if masked { if buf.len() < i + 4 { return None; } mask.copy_from_slice(&buf[i..i + 4]); i += 4; }
    if buf.len() < i + len { return None; }
    let mut payload = buf[i..i + len].to_vec();
    if masked { for (k, b) in payload.iter_mut().enumerate() { *b ^= mask[k % 4]; } }
    buf.drain(..i + len);
    Some((op, payload))
}

impl Read for WsAdapter {
    fn read(&mut self, buf: &mut [u8]) -> std::io::Result<usize> {
        if self.out.is_empty() {
            let mut st = self.inner.state.lock().unwrap();
            let messages = self.rng.range(1, 3);
            for m in 0..messages {
                let want = *self.rng.pick(&[1usize, 2, 5, 100, 4096, 5000, 20_000]);
                let mut tmp = vec![0u8; want];
                match st.do_read(&mut tmp) {
                    Ok(0) => { if m == 0 { return Ok(0); } else { break; } }
                    Ok(n) => { self.out.extend(ws_frame(2, &tmp[..n])); }
                    Err(e) => { if m == 0 { return Err(e); } else { break; } }
                }
            }
        }
        let k = usize::min(usize::min(buf.len(), self.out.len()), *self.rng.pick(&[1usize, 3, 100, 100_000]));
        for i in 0..k { buf[i] = self.out.pop_front().unwrap(); }
        Ok(k)
    }
}

impl Write for WsAdapter {
    fn write(&mut self, buf: &[u8]) -> std::io::Result<usize> {
        let mut st = self.inner.state.lock().unwrap();
        st.write_calls += 1;
        if let Fault::WriteError(n) = st.fault { if st.c2s_all.len() >= n { return Err(std::io::Error::new(std::io::ErrorKind::BrokenPipe, "scripted write error")); } }
        if buf.is_empty() { return Ok(0); }
        let stall = st.stall_pct;
        if st.rng.chance(stall, 100) { st.would_blocks += 1; return Err(std::io::Error::new(std::io::ErrorKind::WouldBlock, "scripted stall")); }
        let max = st.write_chunk_max as u64;
        let k = usize::min(buf.len(), st.rng.range(1, max) as usize);
        if k < buf.len() { st.partial_writes += 1; }
        self.inbuf.extend_from_slice(&buf[..k]);
        while let Some((op, payload)) = ws_take_frame(&mut self.inbuf) {
            match op {
                0 | 2 => st.on_bytes(&payload),
                8 => { st.eof = true; }
                _ => {}
            }
        }
        Ok(k)
    }
    fn flush(&mut self) -> std::io::Result<()> { Ok(()) }
}

fn threaded_client_on<T, F>(copts: MqttClientOptions, connect: ConnectOptions, topts: ThreadedOptions, f: F) -> SyncClientHandle
where T: Read + Write + Send + Sync + 'static, F: Fn() -> Result<T, GneissError> + Send + Sync + 'static {
    new_threaded_client(copts, connect, topts, Arc::new(f))
}

fn threaded_scenario(idx: u64, r: &mut Rng, l: &mut Local) { threaded_scenario_on(idx, r, l, false) }

fn threaded_ws_scenario(idx: u64, r: &mut Rng, l: &mut Local) { threaded_scenario_on(idx, r, l, true) }

fn threaded_scenario_on(idx: u64, r: &mut Rng, l: &mut Local, ws: bool) {
    let v5 = r.chance(2, 3);
    let hub = Arc::new(Hub { pipes: Mutex::new(Vec::new()), seed: r.next_u64(), v5, plan: Mutex::new(Rng::new(r.next_u64())), refuse_pct: *r.pick(&[0u64, 20]), fault_pct: *r.pick(&[0u64, 0, 30]), inbound: *r.pick(&[0usize, 3, 10]) });
    let mut cs = ConnectSpec::default();
    cs.client_id = Some("thr".into());
    cs.keep_alive = Some(1200);
    let hub2 = hub.clone();
    let mut tb = ThreadedOptions::builder();
    tb.with_idle_service_sleep(Duration::from_millis(1));
    let driver: &'static str = if ws { "threaded-websocket" } else { "threaded" };
    let replay = json!({"kind": "real-driver", "driver": driver, "index": idx, "v5": v5});
    let copts = client_options(r, v5);
    let client = if ws {
        let aseed = r.next_u64();
        threaded_client_on(copts, build_connect_options(&cs), tb.build(), move || hub2.connect().map(|m| gv::ws_wrap(WsAdapter::new(m, aseed))))
    } else {
        threaded_client_on(copts, build_connect_options(&cs), tb.build(), move || hub2.connect())
    };
    let received: Arc<Mutex<Vec<u64>>> = Arc::new(Mutex::new(Vec::new()));
    let rc = received.clone();
    let listener: ClientEventListener = Arc::new(move |ev: Arc<ClientEvent>| {
        if let ClientEvent::PublishReceived(p) = &*ev { if let Some(t) = p.publish.payload().and_then(payload_token) { rc.lock().unwrap().push(t); } }
    });
    if client.start(Some(listener)).is_err() { return; }
    l.count(if ws { "c13.threaded_ws_scenarios" } else { "c13.threaded_scenarios" });

    let n = r.range(1, 12) as usize;
    let ops = gen_ops(r, n, 1);
    let mut expected: HashMap<u64, Vec<u8>> = HashMap::new();
    let mut receivers = Vec::new();
    let callback_hits: Arc<Mutex<HashMap<u64, usize>>> = Arc::new(Mutex::new(HashMap::new()));
    let mut callback_tags = Vec::new();
    // callback operations whose submitting call returned an error: that error is their one result
    let mut callback_sync_errors: Vec<u64> = Vec::new();
    for op in &ops {
        expected.insert(op.tag, op.payload.clone());
        let packet = build_publish(&PublishSpec { topic: "d/e".into(), qos: op.qos, payload: Some(op.payload.clone()), ..Default::default() });
        match op.kind {
            1 => {
                let hits = callback_hits.clone();
                let tag = op.tag;
                let cb: SyncPublishResultCallback = Box::new(move |_res| { *hits.lock().unwrap().entry(tag).or_insert(0) += 1; });
                match client.publish_with_callback(packet, None, cb) { Ok(()) => callback_tags.push(op.tag), Err(_) => callback_sync_errors.push(op.tag) }
            }
            2 => {
                let sub = build_subscribe(&SubscribeSpec { subs: vec![rf::Subscription { filter: crate::world::tagged_filter(op.tag, "x"), qos: 1, ..Default::default() }], ..Default::default() });
                let rx = client.subscribe(sub, None);
                receivers.push((op.tag, 2u8, None, Some(rx)));
            }
            _ => { let rx = client.publish(packet, None); receivers.push((op.tag, 0u8, Some(rx), None)); }
        }
    }
    // let things run, then stop or close while more operations are being submitted
    let settle = Duration::from_millis(*r.pick(&[0u64, 1, 5, 30]));
    std::thread::sleep(settle);
    let racer_client = client.clone();
    let racer_n = r.range(0, 6) as usize;
    let racer_ops = gen_ops(r, racer_n, 1000);
    for op in &racer_ops { expected.insert(op.tag, op.payload.clone()); }
    let racer = std::thread::spawn(move || {
        let mut out = Vec::new();
        for op in racer_ops {
            let packet = build_publish(&PublishSpec { topic: "d/r".into(), qos: op.qos, payload: Some(op.payload.clone()), ..Default::default() });
            out.push((op.tag, racer_client.publish(packet, None)));
        }
        out
    });
    let use_stop_first = r.chance(1, 2);
    if use_stop_first { let _ = client.stop(None); std::thread::sleep(Duration::from_millis(r.below(5))); }
    let _ = client.close();
    let racer_rx = racer.join().unwrap_or_default();

    // wait until the event loop is provably gone: a probe submit fails on the channel
    let deadline = Instant::now() + Duration::from_secs(8);
    let mut loop_gone = false;
    let mut probes = Vec::new();
    while Instant::now() < deadline {
        let probe = client.publish(build_publish(&PublishSpec { topic: "probe".into(), qos: 0, payload: Some(vec![1]), ..Default::default() }), None);
        match probe.try_recv() {
            Some(Err(e)) if is_channel_failure(&e) => { loop_gone = true; break; }
            Some(_) => {}
            None => probes.push(probe),
        }
        std::thread::sleep(Duration::from_millis(2));
    }
    if !loop_gone { l.count("c13.watchdog_loop_still_running"); return; }
    l.count("c13.close_races_judged");
    // callback operations submitted once the loop is gone: exactly one result each - the synchronous
    // error, or one callback invocation
    for (tag, kind) in [(2001u64, 0u8), (2002u64, 1u8)] {
        let hits = callback_hits.clone();
        let res = if kind == 0 {
            let cb: SyncPublishResultCallback = Box::new(move |_res| { *hits.lock().unwrap().entry(tag).or_insert(0) += 1; });
            client.publish_with_callback(build_publish(&PublishSpec { topic: "late/cb".into(), qos: 1, payload: Some(vec![9]), ..Default::default() }), None, cb)
        } else {
            let cb: SyncSubscribeResultCallback = Box::new(move |_res| { *hits.lock().unwrap().entry(tag).or_insert(0) += 1; });
            client.subscribe_with_callback(build_subscribe(&SubscribeSpec { subs: vec![rf::Subscription { filter: "late/cb".into(), qos: 1, ..Default::default() }], ..Default::default() }), None, cb)
        };
        l.count("c13.callback_operations_after_close");
        match res { Ok(()) => callback_tags.push(tag), Err(_) => callback_sync_errors.push(tag) }
    }
    // The operation receiver has been dropped.  The loop thread may still be discarding the messages
    // that were queued in the channel (that is what resolves them); give it a generous 20 s (the wait ends as soon as everything is resolved).  After
    // that nothing that could fill a result slot exists any more.
    let mut pending: Vec<(u64, Box<dyn Fn() -> bool>)> = Vec::new();
    for (tag, _k, prx, srx) in receivers.into_iter() {
        l.count("c13.results_checked");
        match (prx, srx) {
            (Some(rx), _) => pending.push((tag, Box::new(move || rx.try_recv().is_some()))),
            (_, Some(rx)) => pending.push((tag, Box::new(move || rx.try_recv().is_some()))),
            _ => {}
        }
    }
    for (tag, rx) in racer_rx.into_iter() { l.count("c13.results_checked"); pending.push((tag, Box::new(move || rx.try_recv().is_some()))); }
    for rx in probes.into_iter() { l.count("c13.results_checked"); pending.push((9999, Box::new(move || rx.try_recv().is_some()))); }
    for t in &callback_tags { l.count("c13.results_checked"); let hits = callback_hits.clone(); let t = *t; pending.push((t, Box::new(move || hits.lock().unwrap().get(&t).copied().unwrap_or(0) >= 1))); }
    let grace = Instant::now() + Duration::from_secs(PATIENCE_S);
    loop {
        pending.retain(|(_, done)| !done());
        if pending.is_empty() || Instant::now() > grace { break; }
        std::thread::sleep(Duration::from_millis(2));
    }
    let unresolved: Vec<u64> = pending.iter().map(|(t, _)| *t).collect();
    if !unresolved.is_empty() {
        l.violation("C13.R5-operation-never-resolves", &[("driver", driver.into()), ("submitted", if unresolved.iter().all(|t| *t >= 1000) { "during-or-after-close".into() } else { "before-close".to_string() })], format!("the event loop has exited (a probe submit fails with OperationChannelFailure) but {} operations have no result and can never get one: tags {:?}", unresolved.len(), &unresolved[..usize::min(8, unresolved.len())]), replay.clone());
    }
    let hits = callback_hits.lock().unwrap();
    for t in callback_tags { match hits.get(&t).copied().unwrap_or(0) { 1 => {} 0 => l.violation("C13.R5-operation-never-resolves", &[("driver", driver.into()), ("submitted", "callback".into())], format!("callback of op {} never invoked although the loop is gone", t), replay.clone()), n => l.violation("C13.R6-result-delivered-twice", &[("driver", driver.into())], format!("callback of op {} invoked {} times", t, n), replay.clone()) } }
    for t in callback_sync_errors { l.count("c13.results_checked"); let n = hits.get(&t).copied().unwrap_or(0); if n > 0 { l.violation("C13.R6-result-delivered-twice", &[("driver", driver.into()), ("how", "synchronous-error-and-callback".into())], format!("submitting callback op {} returned an error and its callback was invoked {} time(s) as well", t, n), replay.clone()); } }
    drop(hits);
    let moved = check_streams(&hub, &expected, l, driver, &replay);
    let rec = received.lock().unwrap().clone();
    check_inbound(&hub, &rec, l, driver, &replay);
    l.nontrivial(crate::rng::fnv(format!("thr|{}|{}|{}", idx, moved, rec.len()).as_bytes()));
    if l.samples.len() < 2 { l.sample(json!({"driver": driver, "v5": v5, "operations": n, "connections": hub.pipes.lock().unwrap().len(), "bytes_to_transport": moved, "inbound_received": rec.len(), "stop_before_close": use_stop_first})); }
}

fn tokio_scenario(idx: u64, r: &mut Rng, l: &mut Local) {
    let v5 = r.chance(2, 3);
    let hub = Arc::new(Hub { pipes: Mutex::new(Vec::new()), seed: r.next_u64(), v5, plan: Mutex::new(Rng::new(r.next_u64())), refuse_pct: *r.pick(&[0u64, 20]), fault_pct: *r.pick(&[0u64, 0, 30]), inbound: *r.pick(&[0usize, 3, 10]) });
    let rt = match tokio::runtime::Builder::new_multi_thread().worker_threads(2).enable_all().build() { Ok(rt) => rt, Err(_) => return };
    let mut cs = ConnectSpec::default();
    cs.client_id = Some("tok".into());
    cs.keep_alive = Some(1200);
    let replay = json!({"kind": "real-driver", "driver": "tokio", "index": idx, "v5": v5});
    let copts = client_options(r, v5);
    let n = r.range(1, 12) as usize;
    let ops = gen_ops(r, n, 1);
    // a quarter of the scenarios submit a long burst while close() runs: the window in which a send can
    // race with the loop dropping its receiver is a few hundred nanoseconds wide
    let racer_n = if r.chance(1, 4) { r.range(20, 60) as usize } else { r.range(0, 6) as usize };
    let racer_ops = gen_ops(r, racer_n, 1000);
    let settle = *r.pick(&[0u64, 1, 5, 30]);
    let use_stop_first = r.chance(1, 2);
    let mut expected: HashMap<u64, Vec<u8>> = HashMap::new();
    for op in ops.iter().chain(racer_ops.iter()) { expected.insert(op.tag, op.payload.clone()); }
    let received: Arc<Mutex<Vec<u64>>> = Arc::new(Mutex::new(Vec::new()));
    let hub2 = hub.clone();
    let rc = received.clone();
    let handle = rt.handle().clone();
    let outcome = rt.block_on(async move {
        let hub3 = hub2.clone();
        let factory: Box<dyn Fn() -> std::pin::Pin<Box<dyn std::future::Future<Output = Result<MemStream, GneissError>> + Send>> + Send + Sync> = Box::new(move || { let h = hub3.clone(); Box::pin(async move { h.connect() }) });
        let client = new_tokio_client(copts, build_connect_options(&cs), TokioOptions::builder(handle).build(), factory);
        let listener: ClientEventListener = Arc::new(move |ev: Arc<ClientEvent>| {
            if let ClientEvent::PublishReceived(p) = &*ev { if let Some(t) = p.publish.payload().and_then(payload_token) { rc.lock().unwrap().push(t); } }
        });
        if client.start(Some(listener)).is_err() { return None; }
        // the operation is submitted inside the call to publish(); the returned future only waits for the result
        let mut futs = Vec::new();
        for op in &ops {
            let packet = build_publish(&PublishSpec { topic: "d/e".into(), qos: op.qos, payload: Some(op.payload.clone()), ..Default::default() });
            futs.push((op.tag, client.publish(packet, None)));
        }
        tokio::time::sleep(Duration::from_millis(settle)).await;
        let rclient = client.clone();
        let racer = tokio::spawn(async move {
            let mut out = Vec::new();
            for op in racer_ops {
                let packet = build_publish(&PublishSpec { topic: "d/r".into(), qos: op.qos, payload: Some(op.payload.clone()), ..Default::default() });
                out.push((op.tag, rclient.publish(packet, None)));
                tokio::task::yield_now().await;
            }
            out
        });
        if use_stop_first { let _ = client.stop(None); tokio::task::yield_now().await; }
        let _ = client.close();
        let racer_futs = racer.await.unwrap_or_default();
        // loop gone?
        let deadline = Instant::now() + Duration::from_secs(8);
        let mut loop_gone = false;
        while Instant::now() < deadline {
            let probe = client.publish(build_publish(&PublishSpec { topic: "probe".into(), qos: 0, payload: Some(vec![1]), ..Default::default() }), None);
            match tokio::time::timeout(Duration::from_millis(20), probe).await {
                Ok(Err(e)) if is_channel_failure(&e) => { loop_gone = true; break; }
                _ => {}
            }
            tokio::time::sleep(Duration::from_millis(2)).await;
        }
        if !loop_gone { return Some((false, Vec::new(), 0usize, false)); }
        // The operation receiver has been dropped; give the task that owned the client implementation
        // a moment to finish dropping it, then every result future must be ready when polled once:
        // nothing that could still complete it exists any more.
        let mut pending: Vec<(u64, AsyncPublishResult)> = futs.into_iter().chain(racer_futs.into_iter()).collect();
        let checked = pending.len();
        let grace = Instant::now() + Duration::from_secs(PATIENCE_S);
        loop {
            pending.retain_mut(|(_, f)| !ready_now(f));
            if pending.is_empty() || Instant::now() > grace { break; }
            tokio::time::sleep(Duration::from_millis(5)).await;
        }
        let unresolved: Vec<u64> = pending.iter().map(|(t, _)| *t).collect();
        // causal fact for the signature: does the result arrive once the last client handle (the
        // last sender of the operation channel) is dropped?  Then the operation was stranded inside
        // the channel: it was sent while the receiver was being dropped.
        let mut freed_by_handle_drop = false;
        if !unresolved.is_empty() {
            drop(client);
            tokio::time::sleep(Duration::from_millis(100)).await;
            pending.retain_mut(|(_, f)| !ready_now(f));
            freed_by_handle_drop = pending.is_empty();
        }
        Some((true, unresolved, checked, freed_by_handle_drop))
    });
    rt.shutdown_timeout(Duration::from_millis(200));
    l.count("c13.tokio_scenarios");
    match outcome {
        None => {}
        Some((false, _, _, _)) => { l.count("c13.watchdog_loop_still_running"); }
        Some((true, unresolved, checked, freed)) => {
            l.count("c13.close_races_judged");
            l.add("c13.results_checked", checked);
            if !unresolved.is_empty() {
                l.violation("C13.R5-operation-never-resolves", &[("driver", "tokio".into()), ("submitted", if unresolved.iter().all(|t| *t >= 1000) { "during-or-after-close".into() } else { "before-close".to_string() }), ("resolves_once_last_handle_is_dropped", freed.to_string())], format!("the event loop has exited but {} operation futures do not resolve within 20 s while a client handle is alive: tags {:?}; resolved after dropping the last handle: {}", unresolved.len(), &unresolved[..usize::min(8, unresolved.len())], freed), replay.clone());
            }
            let moved = check_streams(&hub, &expected, l, "tokio", &replay);
            let rec = received.lock().unwrap().clone();
            check_inbound(&hub, &rec, l, "tokio", &replay);
            l.nontrivial(crate::rng::fnv(format!("tok|{}|{}|{}", idx, moved, rec.len()).as_bytes()));
            if l.samples.len() < 3 { l.sample(json!({"driver": "tokio", "v5": v5, "operations": n, "connections": hub.pipes.lock().unwrap().len(), "bytes_to_transport": moved, "inbound_received": rec.len()})); }
        }
    }
}

/// a large publish on an otherwise idle connection must be handed to the transport completely
fn large_publish_scenario(idx: u64, r: &mut Rng, l: &mut Local) {
    let v5 = r.chance(1, 2);
    let hub = Arc::new(Hub { pipes: Mutex::new(Vec::new()), seed: r.next_u64(), v5, plan: Mutex::new(Rng::new(r.next_u64())), refuse_pct: 0, fault_pct: 0, inbound: 0 });
    let mut cs = ConnectSpec::default();
    cs.client_id = Some("big".into());
    cs.keep_alive = Some(1200);
    let hub2 = hub.clone();
    let factory: Arc<dyn Fn() -> Result<MemStream, GneissError> + Send + Sync> = Arc::new(move || hub2.connect());
    let mut tb = ThreadedOptions::builder();
    tb.with_idle_service_sleep(Duration::from_millis(1));
    let client = new_threaded_client(client_options(r, v5), build_connect_options(&cs), tb.build(), factory);
    if client.start(None).is_err() { return; }
    let size = *r.pick(&[4097usize, 5000, 10_000, 40_000]);
    let extra = r.bytes(size);
    let payload = tagged_payload(7, &extra);
    let rx = client.publish(build_publish(&PublishSpec { topic: "big/one".into(), qos: 1, payload: Some(payload.clone()), ..Default::default() }), None);
    let deadline = Instant::now() + Duration::from_secs(PATIENCE_S);
    let mut done = false;
    while Instant::now() < deadline {
        if rx.try_recv().is_some() { done = true; break; }
        std::thread::sleep(Duration::from_millis(2));
    }
    l.count("c13.large_publish_scenarios");
    let moved: usize = hub.pipes.lock().unwrap().iter().map(|p| p.lock().unwrap().c2s_all.len()).sum();
    let _ = client.close();
    if !done {
        // wall-clock based: corroboration only (the logical verdict is C08.R1 / R2 in the engine simulation)
        l.count("c13.large_publish_stalled_corroboration");
        l.violation("C13.R7-large-publish-stalls", &[("driver", "threaded".into())], format!("a {}-byte QoS1 publish on an idle connection was not completed within 20 s; {} bytes reached the transport (index {})", size, moved, idx), json!({"kind": "real-driver", "driver": "threaded", "index": idx, "size": size}));
    }
}

/* ---------------------------------------------------------------------------------------- */
/* websocket stream wrapper                                                                    */
/* ---------------------------------------------------------------------------------------- */

struct WsPipe {
    to_client: VecDeque<u8>,
    from_client: Vec<u8>,
    rng: Rng,
    read_chunk_max: usize,
    write_stall_pct: u64,
    write_chunk_max: usize,
    /// what the transport does once everything queued has been read: 0 would-block (connection stays
    /// up), 1 end of file, 2 connection reset
    end_mode: u8,
}

#[derive(Clone)]
struct WsRaw { st: Arc<Mutex<WsPipe>> }

impl Read for WsRaw {
    fn read(&mut self, buf: &mut [u8]) -> std::io::Result<usize> {
        let mut s = self.st.lock().unwrap();
        if s.to_client.is_empty() {
            return match s.end_mode {
                1 => Ok(0),
                2 => Err(std::io::Error::new(std::io::ErrorKind::ConnectionReset, "reset")),
                _ => Err(std::io::Error::new(std::io::ErrorKind::WouldBlock, "none")),
            };
        }
        let max = s.read_chunk_max;
        let k = usize::min(usize::min(buf.len(), s.to_client.len()), s.rng.range(1, max as u64) as usize);
        for i in 0..k { buf[i] = s.to_client.pop_front().unwrap(); }
        Ok(k)
    }
}
impl Write for WsRaw {
    fn write(&mut self, buf: &[u8]) -> std::io::Result<usize> {
        let mut s = self.st.lock().unwrap();
        let p = s.write_stall_pct;
        if s.rng.chance(p, 100) { return Err(std::io::Error::new(std::io::ErrorKind::WouldBlock, "stall")); }
        let max = s.write_chunk_max;
        let k = usize::min(buf.len(), s.rng.range(1, max as u64) as usize);
        s.from_client.extend_from_slice(&buf[..k]);
        Ok(k)
    }
    fn flush(&mut self) -> std::io::Result<()> { Ok(()) }
}

fn ws_frame(opcode: u8, payload: &[u8]) -> Vec<u8> {
    let mut f = vec![0x80 | opcode];
    if payload.len() < 126 { f.push(payload.len() as u8); } else if payload.len() < 65536 { f.push(126); f.extend_from_slice(&(payload.len() as u16).to_be_bytes()); } else { f.push(127); f.extend_from_slice(&(payload.len() as u64).to_be_bytes()); }
    f.extend_from_slice(payload);
    f
}

/// parses masked client frames; returns the concatenated binary payloads and the number of data frames
fn ws_parse_client_frames(bytes: &[u8]) -> Option<(Vec<u8>, usize)> {
    let mut out = Vec::new();
    let mut frames = 0;
    let mut i = 0;
    while i < bytes.len() {
        if i + 2 > bytes.len() { return None; }
        let op = bytes[i] & 0x0F;
        let masked = bytes[i + 1] & 0x80 != 0;
        let mut len = (bytes[i + 1] & 0x7F) as usize;
        i += 2;
        if len == 126 { if i + 2 > bytes.len() { return None; } len = u16::from_be_bytes([bytes[i], bytes[i + 1]]) as usize; i += 2; }
        else if len == 127 { if i + 8 > bytes.len() { return None; } len = u64::from_be_bytes(bytes[i..i + 8].try_into().ok()?) as usize; i += 8; }
        let mut mask = [0u8; 4];
        if masked { if i + 4 > bytes.len() { return None; } mask.copy_from_slice(&bytes[i..i + 4]); i += 4; }
        if i + len > bytes.len() { return None; }
        let mut payload = bytes[i..i + len].to_vec();
        if masked { for (k, b) in payload.iter_mut().enumerate() { *b ^= mask[k % 4]; } }
        i += len;
        if op == 2 || op == 0 { out.extend_from_slice(&payload); frames += 1; }
    }
    Some((out, frames))
}

fn ws_scenario(idx: u64, r: &mut Rng, l: &mut Local) {
    let st = Arc::new(Mutex::new(WsPipe { to_client: VecDeque::new(), from_client: Vec::new(), rng: Rng::new(r.next_u64()), read_chunk_max: *r.pick(&[1usize, 7, 100, 5000, 100_000]), write_stall_pct: *r.pick(&[0u64, 0, 30]), write_chunk_max: *r.pick(&[1usize, 10, 100_000]), end_mode: 0 }));
    let raw = WsRaw { st: st.clone() };
    let replay = json!({"kind": "ws-wrapper", "index": idx});
    // in a third of the scenarios the peer goes away right behind its last message (optionally after a
    // close frame): everything it sent before must still come out of read() before the error does
    let end_mode: u8 = if r.chance(1, 3) { *r.pick(&[1u8, 2]) } else { 0 };
    let close_frame_first = end_mode != 0 && r.chance(1, 2);
    let mut wrapped = match catch_unwind(AssertUnwindSafe(|| gv::ws_wrap(raw))) { Ok(w) => w, Err(_) => { let _ = take_panic(); return; } };
    l.count("c13.ws_scenarios");
    // server → client: messages of any size, several per underlying read, larger than the caller's buffer, pings in between
    let nmsg = r.range(1, 6) as usize;
    let mut expected = Vec::new();
    {
        let mut s = st.lock().unwrap();
        for _ in 0..nmsg {
            let n = *r.pick(&[0usize, 1, 2, 10, 100, 4095, 4096, 4097, 10_000]);
            let payload = r.bytes(n);
            expected.extend_from_slice(&payload);
            let frame = ws_frame(2, &payload);
            s.to_client.extend(frame);
            if r.chance(1, 4) { let ping = ws_frame(9, b"hi"); s.to_client.extend(ping); }
        }
        if close_frame_first { let close = ws_frame(8, &[0x03, 0xe8]); s.to_client.extend(close); }
        s.end_mode = end_mode;
    }
    let bufsize = *r.pick(&[1usize, 4, 100, 4096]);
    let mut got = Vec::new();
    let mut buf = vec![0u8; bufsize];
    let mut idle = 0;
    let mut read_calls = 0;
    while idle < 3 && read_calls < 200_000 {
        read_calls += 1;
        for b in buf.iter_mut() { *b = 0xEE; }
        let res = catch_unwind(AssertUnwindSafe(|| wrapped.read(&mut buf)));
        match res {
            Err(_) => { let (m, loc) = take_panic(); let (m, f) = panic_signature(&m, &loc); l.violation("C13.W0-ws-wrapper-panic", &[("panic_message", m), ("panic_file", f)], format!("read panicked at {}", loc), replay.clone()); return; }
            Ok(Ok(0)) => { idle += 1; }
            Ok(Ok(n)) => { if n > buf.len() { l.violation("C13.W1-ws-read-returns-wrong-bytes", &[("kind", "count-exceeds-buffer".into())], format!("read returned {} for a {}-byte buffer", n, buf.len()), replay.clone()); return; } got.extend_from_slice(&buf[..n]); idle = 0; }
            Ok(Err(e)) if e.kind() == std::io::ErrorKind::WouldBlock => { idle += 1; }
            Ok(Err(_)) => break,
        }
    }
    l.add("c13.ws_bytes_read", got.len());
    if end_mode != 0 { l.count("c13.ws_peer_gone_after_last_message"); }
    if got != expected {
        let pos = got.iter().zip(expected.iter()).position(|(a, b)| a != b).unwrap_or(usize::min(got.len(), expected.len()));
        let kind = if got.len() != expected.len() { "length" } else { "content" };
        l.violation("C13.W1-ws-read-returns-wrong-bytes", &[("kind", kind.into()), ("peer_gone_after_last_message", (end_mode != 0).to_string())], format!("{} messages ({} payload bytes) read through a {}-byte buffer: got {} bytes, first difference at {} (end mode {}, close frame {})", nmsg, expected.len(), bufsize, got.len(), pos, end_mode, close_frame_first), replay.clone());
    }
    if end_mode != 0 {
        l.nontrivial(crate::rng::fnv(format!("ws-end|{}|{}", idx, expected.len()).as_bytes()));
        return;
    }
    // client → server
    let nw = r.range(1, 5) as usize;
    let mut sent = Vec::new();
    for _ in 0..nw {
        let small_chunks = st.lock().unwrap().write_chunk_max < 10;
        let n = if small_chunks { *r.pick(&[1usize, 2, 100, 300]) } else { *r.pick(&[1usize, 2, 100, 4096, 9000]) };
        let data = r.bytes(n);
        let mut off = 0;
        let mut tries = 0;
        while off < data.len() && tries < 60 {
            tries += 1;
            match catch_unwind(AssertUnwindSafe(|| wrapped.write(&data[off..]))) {
                Err(_) => { let (m, loc) = take_panic(); let (m, f) = panic_signature(&m, &loc); l.violation("C13.W0-ws-wrapper-panic", &[("panic_message", m), ("panic_file", f)], format!("write panicked at {}", loc), replay.clone()); return; }
                Ok(Ok(k)) => { off += k; }
                Ok(Err(e)) if e.kind() == std::io::ErrorKind::WouldBlock => {}
                Ok(Err(_)) => return,
            }
        }
        sent.extend_from_slice(&data);
        // the driver's discipline: one flush after the data has been handed over, nothing more
        match wrapped.flush() { Ok(()) => {} Err(e) if e.kind() == std::io::ErrorKind::WouldBlock => {} Err(_) => return }
        // and, like the driver loop, a few polls of read() before the next write
        for _ in 0..r.below(4) { let _ = wrapped.read(&mut buf); }
    }
    // the driver loop keeps calling read(); frames still queued inside the websocket (the underlying
    // write would have blocked) are pushed out by those calls
    let mut quiet = 0;
    let mut last_len = st.lock().unwrap().from_client.len();
    let mut spins = 0;
    while quiet < 20 && spins < 200_000 {
        spins += 1;
        // reads only: the driver never calls flush again once a write has been reported complete
        let _ = wrapped.read(&mut buf);
        let now_len = st.lock().unwrap().from_client.len();
        if now_len == last_len { quiet += 1; } else { quiet = 0; last_len = now_len; }
    }
    let wire = st.lock().unwrap().from_client.clone();
    // ignore pong replies: only data frames are collected
    match ws_parse_client_frames(&wire) {
        None => { l.violation("C13.W2-ws-write-duplicates-or-loses-bytes", &[("kind", "unparseable-frames".into())], "bytes on the wire are not a sequence of complete websocket frames after flush".into(), replay.clone()); }
        Some((payload, frames)) => {
            l.add("c13.ws_bytes_written", payload.len());
            if payload != sent {
                let kind = if payload.len() > sent.len() { "duplicated" } else if payload.len() < sent.len() { "lost" } else { "content" };
                l.violation("C13.W2-ws-write-duplicates-or-loses-bytes", &[("kind", kind.into())], format!("{} bytes written through the wrapper, {} payload bytes in {} frames on the wire", sent.len(), payload.len(), frames), replay.clone());
            }
        }
    }
    l.nontrivial(crate::rng::fnv(format!("ws|{}|{}|{}", idx, expected.len(), sent.len()).as_bytes()));
}

pub fn run_c13(tier: &str, seed: u64) -> i32 {
    let quick = tier != "thorough";
    let plan = FuzzPlan {
        id: "C13", level: "exploration", cases: std::env::var("VERIF_C13_CASES").ok().and_then(|v| v.parse().ok()).unwrap_or(if quick { 6_000 } else { 60_000 }),
        rule: "four scenario families per index class: (a) the real threaded client and (b) the real tokio client created through the public new_*_client functions on a scripted in-memory transport (writes accept 1..n bytes or would-block, reads return any fragment, EOF / read error / write error injected, connections refused) with a reference mini-broker behind it: the bytes the transport received must decode as a well-formed MQTT stream whose publishes carry exactly the submitted payloads, inbound publishes must be surfaced in delivery order, and after stop/close racing with submitting threads/tasks every result receiver / future / callback must be resolved exactly once once the event loop is provably gone (a probe submit fails with OperationChannelFailure); (c) a >4096-byte publish on an idle connection; (a') the real threaded client over the websocket stream wrapper (ws_wrap facade) with a framing adapter in front of the same scripted pipe: binary messages of any size, several waiting at once, masked client frames split by partial writes; (d) the threaded websocket stream wrapper alone over an in-memory pipe with frames of any size, several per underlying read, control frames in between and would-block on the underlying write; non-trivial = a scenario reached its oracle; distinct = distinct (family, index, bytes moved)".into(),
        assumptions: vec!["wall clock is used only as a watchdog (counted, never a verdict) except for the corroboration rule C13.R7, whose logical counterpart is C08.R1/R2".into(), "the websocket wrapper is reached through the verif facade (ws_wrap)".into()],
        gates: vec![("c13.close_races_judged", if quick { 500 } else { 12_000 }), ("c13.publishes_verified", if quick { 300 } else { 8_000 }), ("c13.ws_scenarios", if quick { 400 } else { 10_000 }), ("c13.threaded_ws_scenarios", if quick { 200 } else { 5_000 }), ("c13.ws_peer_gone_after_last_message", if quick { 100 } else { 2_500 }), ("c13.results_checked", if quick { 2_500 } else { 60_000 })],
        budget_s: if quick { 900 } else { 3600 },
    };
    let only = std::env::var("VERIF_C13_ONLY").ok();
    let thorough = !quick;
    let mut rep = cases_report(plan, tier, seed, move |idx, r, l| {
        if let Some(o) = &only {
            match o.as_str() { "threaded" => threaded_scenario(idx, r, l), "threaded-ws" => threaded_ws_scenario(idx, r, l), "tokio" => tokio_scenario(idx, r, l), "ws" => ws_scenario(idx, r, l), _ => large_publish_scenario(idx, r, l) }
            return;
        }
        match idx % 8 {
            0 | 1 => threaded_scenario(idx, r, l),
            2 => threaded_ws_scenario(idx, r, l),
            3 | 4 | 5 => tokio_scenario(idx, r, l),
            6 => { if idx % 64 == 6 { large_publish_scenario(idx, r, l) } else { ws_scenario(idx, r, l) } }
            _ => ws_scenario(idx, r, l),
        }
    });
    if thorough || std::env::var("VERIF_MIRI").is_ok() {
        // schedule exploration of the blocking API with the interpreter's deadlock / data-race detector
        crate::miri::add_miri(&mut rep, &[("close-race", 48), ("stop-cycle", 24)]);
    }
    rep.finish()
}


/* ---------------------------------------------------------------------------------------- */
/* C12 corroboration: lifecycle events of the real threaded client                           */
/* ---------------------------------------------------------------------------------------- */

fn lifecycle_scenario(idx: u64, r: &mut Rng, l: &mut Local) {
    let v5 = r.chance(2, 3);
    let hub = Arc::new(Hub { pipes: Mutex::new(Vec::new()), seed: r.next_u64(), v5, plan: Mutex::new(Rng::new(r.next_u64())), refuse_pct: *r.pick(&[0u64, 30, 60]), fault_pct: *r.pick(&[0u64, 30, 60]), inbound: 0 });
    let mut cs = ConnectSpec::default();
    cs.client_id = Some("life".into());
    cs.keep_alive = Some(1200);
    let hub2 = hub.clone();
    let factory: Arc<dyn Fn() -> Result<MemStream, GneissError> + Send + Sync> = Arc::new(move || hub2.connect());
    let mut tb = ThreadedOptions::builder();
    tb.with_idle_service_sleep(Duration::from_millis(1));
    let client = new_threaded_client(client_options(r, v5), build_connect_options(&cs), tb.build(), factory);
    let events: Arc<Mutex<Vec<&'static str>>> = Arc::new(Mutex::new(Vec::new()));
    let ev2 = events.clone();
    // the threaded client invokes listeners synchronously on its loop thread: order is meaningful
    let listener: ClientEventListener = Arc::new(move |ev: Arc<ClientEvent>| {
        let name = match &*ev { ClientEvent::ConnectionAttempt(_) => "Attempt", ClientEvent::ConnectionSuccess(_) => "Success", ClientEvent::ConnectionFailure(_) => "Failure", ClientEvent::Disconnection(_) => "Disconnection", ClientEvent::Stopped(_) => "Stopped", _ => return };
        ev2.lock().unwrap().push(name);
    });
    let replay = json!({"kind": "real-driver-lifecycle", "driver": "threaded", "index": idx});
    let mut script = Vec::new();
    if client.start(Some(listener)).is_err() { return; }
    script.push("start");
    let n = r.range(1, 6);
    let mut last_is_stop = false;
    for _ in 0..n {
        std::thread::sleep(Duration::from_micros(r.range(0, 4000)));
        match r.below(4) {
            0 => { let _ = client.start(None); script.push("start"); last_is_stop = false; }
            1 => { let _ = client.stop(None); script.push("stop"); last_is_stop = true; }
            2 => { let _ = client.stop(Some(StopOptions::builder().with_disconnect_packet(build_disconnect(&DisconnectSpec::default())).build())); script.push("stop-with-disconnect"); last_is_stop = true; }
            _ => { let _ = client.publish(build_publish(&PublishSpec { topic: "l/c".into(), qos: 1, payload: Some(vec![1, 2, 3]), ..Default::default() }), None); script.push("publish"); }
        }
    }
    l.count("c12.real_threaded_histories");
    let mut stop_observed = true;
    if last_is_stop {
        // corroboration with a generous wall-clock bound; the logical verdict is the simulator's
        let deadline = Instant::now() + Duration::from_secs(PATIENCE_S);
        stop_observed = false;
        while Instant::now() < deadline {
            if events.lock().unwrap().last() == Some(&"Stopped") { stop_observed = true; break; }
            std::thread::sleep(Duration::from_millis(2));
        }
        l.count("c12.real_threaded_stop_waits");
    }
    let _ = client.close();
    std::thread::sleep(Duration::from_millis(5));
    let evs = events.lock().unwrap().clone();
    l.add("c12.real_threaded_events", evs.len());
    // regular language
    let mut st = 0u8; // 0 idle, 1 await outcome, 2 connected
    let mut stopped_seen = false;
    for (i, e) in evs.iter().enumerate() {
        let ok = match (st, *e) {
            (0, "Attempt") => { st = 1; true }
            (1, "Failure") => { st = 0; true }
            (1, "Success") => { st = 2; true }
            (2, "Disconnection") => { st = 0; true }
            (0, "Stopped") => { stopped_seen = true; true }
            _ => false,
        };
        if !ok {
            l.violation("C12.D1-real-driver-event-stream-malformed", &[("driver", "threaded".into()), ("state", st.to_string()), ("event", e.to_string())], format!("event #{} {} while in state {} (script {:?}, events {:?})", i, e, st, script, &evs[..usize::min(evs.len(), 30)]), replay.clone());
            break;
        }
    }
    let _ = stopped_seen;
    if last_is_stop && !stop_observed {
        l.violation("C12.D2-real-driver-stop-did-not-stop", &[("driver", "threaded".into()), ("last_request", script.last().copied().unwrap_or("").to_string())], format!("no Stopped event within 20 s after the final stop request (script {:?}, events {:?})", script, &evs[..usize::min(evs.len(), 30)]), replay.clone());
    }
    l.nontrivial(crate::rng::fnv(format!("{:?}|{:?}", script, evs).as_bytes()));
    if l.samples.len() < 2 { l.sample(json!({"driver": "threaded", "script": script, "events": evs})); }
}

/// The same lifecycle corroboration on the real tokio client. Listener callbacks are spawned as tasks
/// in the order the events are produced; on a current-thread runtime tasks spawned from the runtime
/// thread are run first-in first-out, so here (and only here) the listener order is meaningful.
fn tokio_lifecycle_scenario(idx: u64, r: &mut Rng, l: &mut Local) {
    let v5 = r.chance(2, 3);
    let hub = Arc::new(Hub { pipes: Mutex::new(Vec::new()), seed: r.next_u64(), v5, plan: Mutex::new(Rng::new(r.next_u64())), refuse_pct: *r.pick(&[0u64, 30, 60]), fault_pct: *r.pick(&[0u64, 30, 60]), inbound: 0 });
    let rt = match tokio::runtime::Builder::new_current_thread().enable_all().build() { Ok(rt) => rt, Err(_) => return };
    let mut cs = ConnectSpec::default();
    cs.client_id = Some("tlife".into());
    cs.keep_alive = Some(1200);
    let copts = client_options(r, v5);
    let events: Arc<Mutex<Vec<&'static str>>> = Arc::new(Mutex::new(Vec::new()));
    let ev2 = events.clone();
    let replay = json!({"kind": "real-driver-lifecycle", "driver": "tokio", "index": idx});
    let n = r.range(1, 6);
    let mut requests: Vec<(u64, u64)> = Vec::new();
    for _ in 0..n { requests.push((r.range(0, 40), r.below(4))); }
    let hub2 = hub.clone();
    let handle = rt.handle().clone();
    let ev3 = events.clone();
    let (script, last_is_stop, stop_observed) = rt.block_on(async move {
        let hub3 = hub2.clone();
        let factory: Box<dyn Fn() -> std::pin::Pin<Box<dyn std::future::Future<Output = Result<MemStream, GneissError>> + Send>> + Send + Sync> = Box::new(move || { let h = hub3.clone(); Box::pin(async move { h.connect() }) });
        let client = new_tokio_client(copts, build_connect_options(&cs), TokioOptions::builder(handle).build(), factory);
        let listener: ClientEventListener = Arc::new(move |ev: Arc<ClientEvent>| {
            let name = match &*ev { ClientEvent::ConnectionAttempt(_) => "Attempt", ClientEvent::ConnectionSuccess(_) => "Success", ClientEvent::ConnectionFailure(_) => "Failure", ClientEvent::Disconnection(_) => "Disconnection", ClientEvent::Stopped(_) => "Stopped", _ => return };
            ev2.lock().unwrap().push(name);
        });
        let mut script: Vec<&'static str> = Vec::new();
        if client.start(Some(listener)).is_err() { return (script, false, true); }
        script.push("start");
        let mut last_is_stop = false;
        for (pause, what) in requests {
            // 0..39 scheduler turns, every eighth of them a real 1 ms timer
            for i in 0..pause { if i % 8 == 7 { tokio::time::sleep(Duration::from_millis(1)).await; } else { tokio::task::yield_now().await; } }
            match what {
                0 => { let _ = client.start(None); script.push("start"); last_is_stop = false; }
                1 => { let _ = client.stop(None); script.push("stop"); last_is_stop = true; }
                2 => { let _ = client.stop(Some(StopOptions::builder().with_disconnect_packet(build_disconnect(&DisconnectSpec::default())).build())); script.push("stop-with-disconnect"); last_is_stop = true; }
                _ => { let f = client.publish(build_publish(&PublishSpec { topic: "l/c".into(), qos: 1, payload: Some(vec![1, 2, 3]), ..Default::default() }), None); drop(f); script.push("publish"); }
            }
        }
        let mut stop_observed = true;
        if last_is_stop {
            let deadline = Instant::now() + Duration::from_secs(PATIENCE_S);
            stop_observed = false;
            while Instant::now() < deadline {
                if ev3.lock().unwrap().last() == Some(&"Stopped") { stop_observed = true; break; }
                tokio::time::sleep(Duration::from_millis(1)).await;
            }
        }
        let _ = client.close();
        tokio::time::sleep(Duration::from_millis(5)).await;
        (script, last_is_stop, stop_observed)
    });
    rt.shutdown_timeout(Duration::from_millis(200));
    l.count("c12.real_tokio_histories");
    if last_is_stop { l.count("c12.real_tokio_stop_waits"); }
    let evs = events.lock().unwrap().clone();
    l.add("c12.real_tokio_events", evs.len());
    let mut st = 0u8;
    for (i, e) in evs.iter().enumerate() {
        let ok = match (st, *e) {
            (0, "Attempt") => { st = 1; true }
            (1, "Failure") => { st = 0; true }
            (1, "Success") => { st = 2; true }
            (2, "Disconnection") => { st = 0; true }
            (0, "Stopped") => true,
            _ => false,
        };
        if !ok {
            l.violation("C12.D1-real-driver-event-stream-malformed", &[("driver", "tokio".into()), ("state", st.to_string()), ("event", e.to_string())], format!("event #{} {} while in state {} (script {:?}, events {:?})", i, e, st, script, &evs[..usize::min(evs.len(), 30)]), replay.clone());
            break;
        }
    }
    if last_is_stop && !stop_observed {
        l.violation("C12.D2-real-driver-stop-did-not-stop", &[("driver", "tokio".into()), ("last_request", script.last().copied().unwrap_or("").to_string())], format!("no Stopped event within 20 s after the final stop request (script {:?}, events {:?})", script, &evs[..usize::min(evs.len(), 30)]), replay.clone());
    }
    l.nontrivial(crate::rng::fnv(format!("tokio|{:?}|{:?}", script, evs).as_bytes()));
    if l.samples.len() < 2 { l.sample(json!({"driver": "tokio", "script": script, "events": evs})); }
}

pub fn c12_real_driver_report(tier: &str, seed: u64) -> crate::report::Report {
    let quick = tier != "thorough";
    let plan = FuzzPlan {
        id: "C12", level: "exploration", cases: if quick { 1_200 } else { 30_000 },
        rule: "corroboration on the real threaded and tokio clients (public API, the tokio one on a current-thread runtime where listener tasks run in spawn order; scripted transport with refused connections and read/write faults): random start / stop / stop-with-DISCONNECT / publish requests with sub-millisecond pauses; the lifecycle events seen by a listener must follow the regular language, and a final stop must be followed by Stopped within a generous wall-clock bound".into(),
        assumptions: vec!["the wall-clock bound (20 s) is corroboration only; the logical stop rule is the simulator's".into()],
        gates: vec![("c12.real_threaded_histories", if quick { 400 } else { 10_000 }), ("c12.real_tokio_histories", if quick { 400 } else { 10_000 })],
        budget_s: if quick { 600 } else { 3000 },
    };
    cases_report(plan, tier, seed, move |idx, r, l| if idx % 2 == 0 { lifecycle_scenario(idx, r, l) } else { tokio_lifecycle_scenario(idx, r, l) })
}
