//! Independent validator written from the MQTT 5.0 text: classifies a user operation against the
//! static rules of the specification and against the capabilities a server announced.
//! Tri-state: MustAccept / MustReject(rule) / Unspecified (contested corners never give a verdict).

use crate::refmqtt as rf;
use crate::runner::*;

#[derive(Clone, Debug, PartialEq, Eq)]
pub enum Verdict {
    MustAccept,
    MustReject(&'static str),
    Unspecified(&'static str),
}

#[derive(Clone, Debug)]
pub struct Caps {
    pub maximum_packet_size: u32,
    pub maximum_qos: u8,
    pub retain_available: bool,
    pub wildcard_available: bool,
    pub shared_available: bool,
    pub subscription_ids_available: bool,
    pub topic_alias_maximum: u16,
}

impl Default for Caps {
    fn default() -> Self {
        Caps { maximum_packet_size: 268_435_455, maximum_qos: 2, retain_available: true, wildcard_available: true, shared_available: true, subscription_ids_available: true, topic_alias_maximum: 0 }
    }
}

pub fn caps_from_connack(k: &rf::Connack) -> Caps {
    Caps {
        maximum_packet_size: k.maximum_packet_size.unwrap_or(268_435_455),
        maximum_qos: k.maximum_qos.unwrap_or(2),
        retain_available: k.retain_available.unwrap_or(1) == 1,
        wildcard_available: k.wildcard_available.unwrap_or(1) == 1,
        shared_available: k.shared_available.unwrap_or(1) == 1,
        subscription_ids_available: k.subscription_ids_available.unwrap_or(1) == 1,
        topic_alias_maximum: k.topic_alias_maximum.unwrap_or(0),
    }
}

fn props_static(props: &Vec<(String, String)>) -> Option<&'static str> {
    for (k, v) in props {
        if k.len() > 65535 { return Some("user-property-name-too-long"); }
        if v.len() > 65535 { return Some("user-property-value-too-long"); }
    }
    None
}

fn has_null(s: &str) -> bool { s.contains('\u{0}') }

/// static rules (no connection needed)
pub fn static_publish(p: &PublishSpec) -> Verdict {
    if p.topic.len() > 65535 { return Verdict::MustReject("topic-too-long"); }
    if p.topic.is_empty() { return Verdict::MustReject("topic-empty"); }
    if p.topic.contains('#') || p.topic.contains('+') { return Verdict::MustReject("topic-has-wildcard"); }
    if has_null(&p.topic) { return Verdict::Unspecified("utf8-null"); }
    if let Some(r) = &p.response_topic {
        if r.len() > 65535 { return Verdict::MustReject("response-topic-too-long"); }
        if r.is_empty() || r.contains('#') || r.contains('+') { return Verdict::MustReject("response-topic-invalid"); }
    }
    if let Some(c) = &p.correlation_data { if c.len() > 65535 { return Verdict::MustReject("correlation-data-too-long"); } }
    if let Some(c) = &p.content_type { if c.len() > 65535 { return Verdict::MustReject("content-type-too-long"); } }
    if let Some(r) = props_static(&p.user_props) { return Verdict::MustReject(r); }
    if p.topic_alias == Some(0) { return Verdict::MustReject("topic-alias-zero"); }
    Verdict::MustAccept
}

pub fn static_subscribe(s: &SubscribeSpec) -> Verdict {
    if s.subs.is_empty() { return Verdict::MustReject("no-subscriptions"); }
    let mut unspecified = None;
    for sub in &s.subs {
        if sub.filter.len() > 65535 { return Verdict::MustReject("filter-too-long"); }
        let info = rf::filter_info(&sub.filter);
        if !info.valid { return Verdict::MustReject("filter-invalid"); }
        if info.malformed_shared { unspecified = Some("malformed-share"); }
        if info.well_formed_shared && sub.no_local { return Verdict::MustReject("no-local-on-shared"); }
    }
    if let Some(id) = s.subscription_id {
        if id == 0 || id > 268_435_455 { return Verdict::MustReject("subscription-identifier-range"); }
    }
    if let Some(r) = props_static(&s.user_props) { return Verdict::MustReject(r); }
    if let Some(u) = unspecified { return Verdict::Unspecified(u); }
    Verdict::MustAccept
}

pub fn static_unsubscribe(u: &UnsubscribeSpec) -> Verdict {
    if u.filters.is_empty() { return Verdict::MustReject("no-filters"); }
    let mut unspecified = None;
    for f in &u.filters {
        if f.len() > 65535 { return Verdict::MustReject("filter-too-long"); }
        let info = rf::filter_info(f);
        if !info.valid { return Verdict::MustReject("filter-invalid"); }
        if info.malformed_shared { unspecified = Some("malformed-share"); }
    }
    if let Some(r) = props_static(&u.user_props) { return Verdict::MustReject(r); }
    if let Some(x) = unspecified { return Verdict::Unspecified(x); }
    Verdict::MustAccept
}

pub fn static_disconnect(d: &DisconnectSpec) -> Verdict {
    if let Some(r) = &d.reason_string { if r.len() > 65535 { return Verdict::MustReject("reason-string-too-long"); } }
    if let Some(r) = props_static(&d.user_props) { return Verdict::MustReject(r); }
    Verdict::MustAccept
}

pub fn static_op(op: &OpSpec) -> Verdict {
    match &op.body {
        OpBody::Publish(p) => static_publish(p),
        OpBody::Subscribe(s) => static_subscribe(s),
        OpBody::Unsubscribe(u) => static_unsubscribe(u),
    }
}

/// connection-dependent rules over a packet as it appears on the wire
pub fn wire_against_caps(packet: &rf::Packet, wire_len: usize, caps: &Caps, v5: bool) -> Verdict {
    if v5 && wire_len as u64 > caps.maximum_packet_size as u64 { return Verdict::MustReject("exceeds-maximum-packet-size"); }
    match packet {
        rf::Packet::Publish(p) => {
            if p.qos > caps.maximum_qos { return Verdict::MustReject("qos-above-maximum"); }
            if p.retain && !caps.retain_available { return Verdict::MustReject("retain-not-available"); }
            if !p.topic.is_empty() && !rf::topic_name_valid(&p.topic) { return Verdict::MustReject("topic-invalid"); }
            if let Some(r) = &p.response_topic { if !rf::topic_name_valid(r) { return Verdict::MustReject("response-topic-invalid"); } }
            if !p.subscription_ids.is_empty() { return Verdict::MustReject("subscription-identifier-from-client"); }
            Verdict::MustAccept
        }
        rf::Packet::Subscribe(s) => {
            let mut unspecified = None;
            for sub in &s.subscriptions {
                let info = rf::filter_info(&sub.filter);
                if !info.valid { return Verdict::MustReject("filter-invalid"); }
                if info.wildcard && !caps.wildcard_available { return Verdict::MustReject("wildcard-not-available"); }
                if info.well_formed_shared && !caps.shared_available { return Verdict::MustReject("shared-not-available"); }
                if info.well_formed_shared && sub.no_local { return Verdict::MustReject("no-local-on-shared"); }
                if info.malformed_shared { unspecified = Some("malformed-share"); }
            }
            if s.subscription_id.is_some() && !caps.subscription_ids_available { return Verdict::MustReject("subscription-identifiers-not-available"); }
            if let Some(u) = unspecified { return Verdict::Unspecified(u); }
            Verdict::MustAccept
        }
        rf::Packet::Unsubscribe(u) => {
            let mut unspecified = None;
            for f in &u.filters {
                let info = rf::filter_info(f);
                if !info.valid { return Verdict::MustReject("filter-invalid"); }
                // the availability flags are defined for SUBSCRIBE; whether an UNSUBSCRIBE that
                // names a wildcard / shared filter "violates" them is not settled by the text
                if (info.wildcard && !caps.wildcard_available) || ((info.well_formed_shared || info.malformed_shared) && !caps.shared_available) { unspecified = Some("unsubscribe-filter-vs-availability"); }
            }
            if let Some(u) = unspecified { return Verdict::Unspecified(u); }
            Verdict::MustAccept
        }
        _ => Verdict::MustAccept,
    }
}
