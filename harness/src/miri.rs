//! Runs the small scenarios of /verif/miri under the Miri interpreter (thorough tier) and turns
//! its verdicts (deadlock, data race, undefined behaviour, panic) into report entries.

use crate::report::*;
use serde_json::json;
use std::process::Command;

pub struct MiriOutcome {
    pub ran: bool,
    pub ok: bool,
    pub kind: String,
    pub excerpt: String,
    pub seeds: u32,
    pub wall_s: f64,
}

pub fn run_miri(scenario: &str, seeds: u32) -> MiriOutcome {
    let dir = format!("{}/miri", verif_dir());
    let start = std::time::Instant::now();
    let _ = std::fs::copy("/repo/Cargo.lock", format!("{}/Cargo.lock", dir));
    let out = Command::new("cargo")
        .args(["+nightly", "miri", "run", "--offline", "-q", "--", scenario])
        .current_dir(&dir)
        .env("MIRIFLAGS", format!("-Zmiri-disable-isolation -Zmiri-many-seeds=0..{}", seeds))
        .env("CARGO_NET_OFFLINE", "true")
        .output();
    let wall_s = start.elapsed().as_secs_f64();
    match out {
        Err(e) => MiriOutcome { ran: false, ok: false, kind: "not-run".into(), excerpt: format!("{}", e), seeds, wall_s },
        Ok(o) => {
            let text = format!("{}\n{}", String::from_utf8_lossy(&o.stdout), String::from_utf8_lossy(&o.stderr));
            let lower = text.to_lowercase();
            let kind = if lower.contains("deadlock") { "deadlock" } else if lower.contains("data race") { "data-race" } else if lower.contains("undefined behavior") { "undefined-behavior" } else if lower.contains("panicked at") { "panic" } else if !o.status.success() { "failed" } else { "clean" };
            let interesting: Vec<&str> = text.lines().filter(|l| { let l2 = l.to_lowercase(); l2.contains("error") || l2.contains("deadlock") || l2.contains("data race") || l2.contains("undefined behavior") || l2.contains("panicked") || l2.contains("seed") && l2.contains("fail") }).take(12).collect();
            // a build failure is not a verdict
            let build_failed = !o.status.success() && (lower.contains("could not compile") || lower.contains("failed to select a version") || lower.contains("no matching package"));
            MiriOutcome { ran: !build_failed, ok: o.status.success() && kind == "clean", kind: if build_failed { "build-failed".into() } else { kind.into() }, excerpt: interesting.join(" | "), seeds, wall_s }
        }
    }
}

/// adds the outcome of the given scenarios to a report
pub fn add_miri(rep: &mut Report, scenarios: &[(&str, u32)]) {
    let mut summary = Vec::new();
    for (sc, seeds) in scenarios {
        let o = run_miri(sc, *seeds);
        summary.push(json!({"scenario": sc, "seeds": o.seeds, "verdict": o.kind, "wall_s": (o.wall_s * 10.0).round() / 10.0}));
        if !o.ran {
            rep.inconclusive.push(format!("miri:{}:{}:{}", sc, o.kind, o.excerpt.chars().take(200).collect::<String>()));
        } else if !o.ok {
            let sig: std::collections::BTreeMap<String, String> = [("scenario".to_string(), sc.to_string()), ("kind".to_string(), o.kind.clone())].into_iter().collect();
            rep.add_found("MIRI.M1-interpreter-verdict", sig, format!("Miri ({} seeds) on scenario {}: {} :: {}", o.seeds, sc, o.kind, o.excerpt), json!({"kind": "miri", "scenario": sc, "seeds": o.seeds, "how": format!("cd /verif/miri && MIRIFLAGS='-Zmiri-disable-isolation -Zmiri-many-seeds=0..{}' cargo +nightly miri run --offline -- {}", o.seeds, sc)}));
        }
        rep.evaluations += *seeds as usize;
    }
    rep.extra.insert("miri".into(), json!(summary));
}
