//! Reference MQTT 5.0 / 3.1.1 codec written from the OASIS specifications.
//! Shares no code with gneiss-mqtt.  The decoder is strict: anything the specifications call
//! malformed is rejected with a rule name.

use crate::rng::Rng;

pub type UserProps = Vec<(String, String)>;

#[derive(Clone, Debug, PartialEq, Eq, Default)]
pub struct Publish {
    pub dup: bool,
    pub qos: u8,
    pub retain: bool,
    pub topic: String,
    pub packet_id: Option<u16>,
    pub payload: Vec<u8>,
    pub payload_format: Option<u8>,
    pub message_expiry: Option<u32>,
    pub topic_alias: Option<u16>,
    pub response_topic: Option<String>,
    pub correlation_data: Option<Vec<u8>>,
    pub subscription_ids: Vec<u32>,
    pub content_type: Option<String>,
    pub user_props: UserProps,
}

#[derive(Clone, Debug, PartialEq, Eq, Default)]
pub struct Will {
    pub qos: u8,
    pub retain: bool,
    pub topic: String,
    pub payload: Vec<u8>,
    pub will_delay: Option<u32>,
    pub payload_format: Option<u8>,
    pub message_expiry: Option<u32>,
    pub content_type: Option<String>,
    pub response_topic: Option<String>,
    pub correlation_data: Option<Vec<u8>>,
    pub user_props: UserProps,
}

#[derive(Clone, Debug, PartialEq, Eq, Default)]
pub struct Connect {
    pub clean_start: bool,
    pub keep_alive: u16,
    pub client_id: String,
    pub username: Option<String>,
    pub password: Option<Vec<u8>>,
    pub will: Option<Will>,
    pub session_expiry: Option<u32>,
    pub receive_maximum: Option<u16>,
    pub maximum_packet_size: Option<u32>,
    pub topic_alias_maximum: Option<u16>,
    pub request_response_information: Option<u8>,
    pub request_problem_information: Option<u8>,
    pub authentication_method: Option<String>,
    pub authentication_data: Option<Vec<u8>>,
    pub user_props: UserProps,
}

#[derive(Clone, Debug, PartialEq, Eq, Default)]
pub struct Connack {
    pub session_present: bool,
    pub reason: u8,
    pub session_expiry: Option<u32>,
    pub receive_maximum: Option<u16>,
    pub maximum_qos: Option<u8>,
    pub retain_available: Option<u8>,
    pub maximum_packet_size: Option<u32>,
    pub assigned_client_id: Option<String>,
    pub topic_alias_maximum: Option<u16>,
    pub reason_string: Option<String>,
    pub user_props: UserProps,
    pub wildcard_available: Option<u8>,
    pub subscription_ids_available: Option<u8>,
    pub shared_available: Option<u8>,
    pub server_keep_alive: Option<u16>,
    pub response_information: Option<String>,
    pub server_reference: Option<String>,
    pub authentication_method: Option<String>,
    pub authentication_data: Option<Vec<u8>>,
}

/// PUBACK / PUBREC / PUBREL / PUBCOMP
#[derive(Clone, Debug, PartialEq, Eq, Default)]
pub struct Ack {
    pub packet_id: u16,
    pub reason: u8,
    pub reason_string: Option<String>,
    pub user_props: UserProps,
}

#[derive(Clone, Debug, PartialEq, Eq, Default)]
pub struct Subscription {
    pub filter: String,
    pub qos: u8,
    pub no_local: bool,
    pub retain_as_published: bool,
    pub retain_handling: u8,
}

#[derive(Clone, Debug, PartialEq, Eq, Default)]
pub struct Subscribe {
    pub packet_id: u16,
    pub subscription_id: Option<u32>,
    pub user_props: UserProps,
    pub subscriptions: Vec<Subscription>,
}

#[derive(Clone, Debug, PartialEq, Eq, Default)]
pub struct Suback {
    pub packet_id: u16,
    pub reason_string: Option<String>,
    pub user_props: UserProps,
    pub codes: Vec<u8>,
}

#[derive(Clone, Debug, PartialEq, Eq, Default)]
pub struct Unsubscribe {
    pub packet_id: u16,
    pub user_props: UserProps,
    pub filters: Vec<String>,
}

#[derive(Clone, Debug, PartialEq, Eq, Default)]
pub struct Unsuback {
    pub packet_id: u16,
    pub reason_string: Option<String>,
    pub user_props: UserProps,
    pub codes: Vec<u8>,
}

#[derive(Clone, Debug, PartialEq, Eq, Default)]
pub struct Disconnect {
    pub reason: u8,
    pub session_expiry: Option<u32>,
    pub reason_string: Option<String>,
    pub user_props: UserProps,
    pub server_reference: Option<String>,
}

#[derive(Clone, Debug, PartialEq, Eq, Default)]
pub struct Auth {
    pub reason: u8,
    pub authentication_method: Option<String>,
    pub authentication_data: Option<Vec<u8>>,
    pub reason_string: Option<String>,
    pub user_props: UserProps,
}

#[derive(Clone, Debug, PartialEq, Eq)]
pub enum Packet {
    Connect(Connect),
    Connack(Connack),
    Publish(Publish),
    Puback(Ack),
    Pubrec(Ack),
    Pubrel(Ack),
    Pubcomp(Ack),
    Subscribe(Subscribe),
    Suback(Suback),
    Unsubscribe(Unsubscribe),
    Unsuback(Unsuback),
    Pingreq,
    Pingresp,
    Disconnect(Disconnect),
    Auth(Auth),
}

impl Packet {
    pub fn kind(&self) -> &'static str {
        match self {
            Packet::Connect(_) => "CONNECT",
            Packet::Connack(_) => "CONNACK",
            Packet::Publish(_) => "PUBLISH",
            Packet::Puback(_) => "PUBACK",
            Packet::Pubrec(_) => "PUBREC",
            Packet::Pubrel(_) => "PUBREL",
            Packet::Pubcomp(_) => "PUBCOMP",
            Packet::Subscribe(_) => "SUBSCRIBE",
            Packet::Suback(_) => "SUBACK",
            Packet::Unsubscribe(_) => "UNSUBSCRIBE",
            Packet::Unsuback(_) => "UNSUBACK",
            Packet::Pingreq => "PINGREQ",
            Packet::Pingresp => "PINGRESP",
            Packet::Disconnect(_) => "DISCONNECT",
            Packet::Auth(_) => "AUTH",
        }
    }

    pub fn type_code(&self) -> u8 {
        match self {
            Packet::Connect(_) => 1,
            Packet::Connack(_) => 2,
            Packet::Publish(_) => 3,
            Packet::Puback(_) => 4,
            Packet::Pubrec(_) => 5,
            Packet::Pubrel(_) => 6,
            Packet::Pubcomp(_) => 7,
            Packet::Subscribe(_) => 8,
            Packet::Suback(_) => 9,
            Packet::Unsubscribe(_) => 10,
            Packet::Unsuback(_) => 11,
            Packet::Pingreq => 12,
            Packet::Pingresp => 13,
            Packet::Disconnect(_) => 14,
            Packet::Auth(_) => 15,
        }
    }
}

/* ------------------------------------------------------------------------------------------ */
/* Reason code tables (MQTT 5.0 section 2.4 and the per-packet sections)                       */
/* ------------------------------------------------------------------------------------------ */

pub const CONNACK_REASONS5: &[u8] = &[0x00, 0x80, 0x81, 0x82, 0x83, 0x84, 0x85, 0x86, 0x87, 0x88, 0x89, 0x8A, 0x8C, 0x90, 0x95, 0x97, 0x99, 0x9A, 0x9B, 0x9C, 0x9D, 0x9F];
pub const CONNACK_RETURN_CODES311: &[u8] = &[0, 1, 2, 3, 4, 5];
pub const PUBACK_REASONS: &[u8] = &[0x00, 0x10, 0x80, 0x83, 0x87, 0x90, 0x91, 0x97, 0x99];
pub const PUBREC_REASONS: &[u8] = &[0x00, 0x10, 0x80, 0x83, 0x87, 0x90, 0x91, 0x97, 0x99];
pub const PUBREL_REASONS: &[u8] = &[0x00, 0x92];
pub const PUBCOMP_REASONS: &[u8] = &[0x00, 0x92];
pub const SUBACK_REASONS5: &[u8] = &[0x00, 0x01, 0x02, 0x80, 0x83, 0x87, 0x8F, 0x91, 0x97, 0x9E, 0xA1, 0xA2];
pub const SUBACK_RETURN_CODES311: &[u8] = &[0x00, 0x01, 0x02, 0x80];
pub const UNSUBACK_REASONS: &[u8] = &[0x00, 0x11, 0x80, 0x83, 0x87, 0x8F, 0x91];
/// DISCONNECT reason codes a *server* may send
pub const DISCONNECT_REASONS_SERVER: &[u8] = &[0x00, 0x80, 0x81, 0x82, 0x83, 0x87, 0x89, 0x8B, 0x8D, 0x8E, 0x8F, 0x90, 0x93, 0x94, 0x95, 0x96, 0x97, 0x98, 0x99, 0x9A, 0x9B, 0x9C, 0x9D, 0x9E, 0x9F, 0xA0, 0xA1, 0xA2];
/// DISCONNECT reason codes in the table as a whole (client or server)
pub const DISCONNECT_REASONS_ALL: &[u8] = &[0x00, 0x04, 0x80, 0x81, 0x82, 0x83, 0x87, 0x89, 0x8B, 0x8D, 0x8E, 0x8F, 0x90, 0x93, 0x94, 0x95, 0x96, 0x97, 0x98, 0x99, 0x9A, 0x9B, 0x9C, 0x9D, 0x9E, 0x9F, 0xA0, 0xA1, 0xA2];
pub const AUTH_REASONS: &[u8] = &[0x00, 0x18, 0x19];

/* ------------------------------------------------------------------------------------------ */
/* Encoder                                                                                     */
/* ------------------------------------------------------------------------------------------ */

/// Legal degrees of freedom an encoder has
#[derive(Clone, Debug, Default)]
pub struct Knobs {
    /// seed for permuting the property order (0 = canonical order)
    pub property_order_seed: u64,
    /// do not elide reason code / property length even where the specification allows it
    pub no_elision: bool,
}

pub fn vbi(mut v: u32, out: &mut Vec<u8>) {
    loop {
        let mut b = (v % 128) as u8;
        v /= 128;
        if v > 0 {
            b |= 0x80;
        }
        out.push(b);
        if v == 0 {
            break;
        }
    }
}

pub fn vbi_len(v: u32) -> usize {
    if v < 128 { 1 } else if v < 16384 { 2 } else if v < 2097152 { 3 } else { 4 }
}

fn put_u16(v: u16, out: &mut Vec<u8>) { out.extend_from_slice(&v.to_be_bytes()); }
fn put_u32(v: u32, out: &mut Vec<u8>) { out.extend_from_slice(&v.to_be_bytes()); }
fn put_bin(v: &[u8], out: &mut Vec<u8>) {
    put_u16(v.len() as u16, out);
    out.extend_from_slice(v);
}
fn put_str(v: &str, out: &mut Vec<u8>) { put_bin(v.as_bytes(), out); }

struct PropList {
    items: Vec<Vec<u8>>,
}

impl PropList {
    fn new() -> PropList { PropList { items: Vec::new() } }
    fn byte(&mut self, id: u8, v: Option<u8>) { if let Some(v) = v { self.items.push(vec![id, v]); } }
    fn u16(&mut self, id: u8, v: Option<u16>) { if let Some(v) = v { let mut b = vec![id]; put_u16(v, &mut b); self.items.push(b); } }
    fn u32(&mut self, id: u8, v: Option<u32>) { if let Some(v) = v { let mut b = vec![id]; put_u32(v, &mut b); self.items.push(b); } }
    fn vbi(&mut self, id: u8, v: u32) { let mut b = vec![id]; vbi(v, &mut b); self.items.push(b); }
    fn str(&mut self, id: u8, v: &Option<String>) { if let Some(v) = v { let mut b = vec![id]; put_str(v, &mut b); self.items.push(b); } }
    fn bin(&mut self, id: u8, v: &Option<Vec<u8>>) { if let Some(v) = v { let mut b = vec![id]; put_bin(v, &mut b); self.items.push(b); } }
    fn user(&mut self, props: &UserProps) {
        for (k, v) in props {
            let mut b = vec![38u8];
            put_str(k, &mut b);
            put_str(v, &mut b);
            self.items.push(b);
        }
    }

    /// Serialises with a seeded permutation.  The relative order of user properties is kept
    /// (the specification requires their order to be preserved), as is the relative order of
    /// subscription identifiers.
    fn finish(self, seed: u64) -> Vec<u8> {
        let mut items = self.items;
        if seed != 0 && items.len() > 1 {
            let mut rng = Rng::new(seed);
            // choose a random interleaving that preserves the relative order within each id class
            let n = items.len();
            let mut keyed: Vec<(u64, usize)> = (0..n).map(|i| (rng.next_u64(), i)).collect();
            keyed.sort();
            let order: Vec<usize> = keyed.iter().map(|(_, i)| *i).collect();
            // restore relative order of same-id items
            let mut by_id: std::collections::HashMap<u8, Vec<usize>> = std::collections::HashMap::new();
            for i in 0..n {
                by_id.entry(items[i][0]).or_default().push(i);
            }
            let mut cursor: std::collections::HashMap<u8, usize> = std::collections::HashMap::new();
            let mut final_order = Vec::with_capacity(n);
            for slot in order {
                let id = items[slot][0];
                let c = cursor.entry(id).or_insert(0);
                final_order.push(by_id[&id][*c]);
                *c += 1;
            }
            let mut taken: Vec<Option<Vec<u8>>> = items.drain(..).map(Some).collect();
            items = final_order.into_iter().map(|i| taken[i].take().unwrap()).collect();
        }
        let mut out = Vec::new();
        for it in items {
            out.extend_from_slice(&it);
        }
        out
    }
}

fn with_prop_len(props: Vec<u8>, out: &mut Vec<u8>) {
    vbi(props.len() as u32, out);
    out.extend_from_slice(&props);
}

fn finish(first_byte: u8, body: Vec<u8>) -> Vec<u8> {
    let mut out = vec![first_byte];
    vbi(body.len() as u32, &mut out);
    out.extend_from_slice(&body);
    out
}

fn encode_ack(type_code: u8, flags: u8, ack: &Ack, v5: bool, knobs: &Knobs) -> Vec<u8> {
    let mut body = Vec::new();
    put_u16(ack.packet_id, &mut body);
    if v5 {
        let mut pl = PropList::new();
        pl.str(31, &ack.reason_string);
        pl.user(&ack.user_props);
        let props = pl.finish(knobs.property_order_seed);
        if props.is_empty() && !knobs.no_elision {
            if ack.reason != 0 {
                body.push(ack.reason);
            }
        } else {
            body.push(ack.reason);
            with_prop_len(props, &mut body);
        }
    }
    finish((type_code << 4) | flags, body)
}

pub fn encode(packet: &Packet, v5: bool, knobs: &Knobs) -> Vec<u8> {
    let seed = knobs.property_order_seed;
    match packet {
        Packet::Connect(c) => {
            let mut body = Vec::new();
            put_str("MQTT", &mut body);
            body.push(if v5 { 5 } else { 4 });
            let mut flags = 0u8;
            if c.clean_start { flags |= 2; }
            if let Some(w) = &c.will {
                flags |= 4 | (w.qos << 3);
                if w.retain { flags |= 0x20; }
            }
            if c.password.is_some() { flags |= 0x40; }
            if c.username.is_some() { flags |= 0x80; }
            body.push(flags);
            put_u16(c.keep_alive, &mut body);
            if v5 {
                let mut pl = PropList::new();
                pl.u32(17, c.session_expiry);
                pl.u16(33, c.receive_maximum);
                pl.u32(39, c.maximum_packet_size);
                pl.u16(34, c.topic_alias_maximum);
                pl.byte(25, c.request_response_information);
                pl.byte(23, c.request_problem_information);
                pl.str(21, &c.authentication_method);
                pl.bin(22, &c.authentication_data);
                pl.user(&c.user_props);
                with_prop_len(pl.finish(seed), &mut body);
            }
            put_str(&c.client_id, &mut body);
            if let Some(w) = &c.will {
                if v5 {
                    let mut pl = PropList::new();
                    pl.u32(24, w.will_delay);
                    pl.byte(1, w.payload_format);
                    pl.u32(2, w.message_expiry);
                    pl.str(3, &w.content_type);
                    pl.str(8, &w.response_topic);
                    pl.bin(9, &w.correlation_data);
                    pl.user(&w.user_props);
                    with_prop_len(pl.finish(seed), &mut body);
                }
                put_str(&w.topic, &mut body);
                put_bin(&w.payload, &mut body);
            }
            if let Some(u) = &c.username { put_str(u, &mut body); }
            if let Some(p) = &c.password { put_bin(p, &mut body); }
            finish(0x10, body)
        }
        Packet::Connack(c) => {
            let mut body = Vec::new();
            body.push(if c.session_present { 1 } else { 0 });
            body.push(c.reason);
            if v5 {
                let mut pl = PropList::new();
                pl.u32(17, c.session_expiry);
                pl.u16(33, c.receive_maximum);
                pl.byte(36, c.maximum_qos);
                pl.byte(37, c.retain_available);
                pl.u32(39, c.maximum_packet_size);
                pl.str(18, &c.assigned_client_id);
                pl.u16(34, c.topic_alias_maximum);
                pl.str(31, &c.reason_string);
                pl.user(&c.user_props);
                pl.byte(40, c.wildcard_available);
                pl.byte(41, c.subscription_ids_available);
                pl.byte(42, c.shared_available);
                pl.u16(19, c.server_keep_alive);
                pl.str(26, &c.response_information);
                pl.str(28, &c.server_reference);
                pl.str(21, &c.authentication_method);
                pl.bin(22, &c.authentication_data);
                with_prop_len(pl.finish(seed), &mut body);
            }
            finish(0x20, body)
        }
        Packet::Publish(p) => {
            let mut body = Vec::new();
            put_str(&p.topic, &mut body);
            if p.qos > 0 {
                put_u16(p.packet_id.unwrap_or(0), &mut body);
            }
            if v5 {
                let mut pl = PropList::new();
                pl.byte(1, p.payload_format);
                pl.u32(2, p.message_expiry);
                pl.u16(35, p.topic_alias);
                pl.str(8, &p.response_topic);
                pl.bin(9, &p.correlation_data);
                for id in &p.subscription_ids { pl.vbi(11, *id); }
                pl.str(3, &p.content_type);
                pl.user(&p.user_props);
                with_prop_len(pl.finish(seed), &mut body);
            }
            body.extend_from_slice(&p.payload);
            let mut fb = 0x30u8 | (p.qos << 1);
            if p.dup { fb |= 8; }
            if p.retain { fb |= 1; }
            finish(fb, body)
        }
        Packet::Puback(a) => encode_ack(4, 0, a, v5, knobs),
        Packet::Pubrec(a) => encode_ack(5, 0, a, v5, knobs),
        Packet::Pubrel(a) => encode_ack(6, 2, a, v5, knobs),
        Packet::Pubcomp(a) => encode_ack(7, 0, a, v5, knobs),
        Packet::Subscribe(s) => {
            let mut body = Vec::new();
            put_u16(s.packet_id, &mut body);
            if v5 {
                let mut pl = PropList::new();
                if let Some(id) = s.subscription_id { pl.vbi(11, id); }
                pl.user(&s.user_props);
                with_prop_len(pl.finish(seed), &mut body);
            }
            for sub in &s.subscriptions {
                put_str(&sub.filter, &mut body);
                let mut o = sub.qos;
                if v5 {
                    if sub.no_local { o |= 4; }
                    if sub.retain_as_published { o |= 8; }
                    o |= sub.retain_handling << 4;
                }
                body.push(o);
            }
            finish(0x82, body)
        }
        Packet::Suback(s) => {
            let mut body = Vec::new();
            put_u16(s.packet_id, &mut body);
            if v5 {
                let mut pl = PropList::new();
                pl.str(31, &s.reason_string);
                pl.user(&s.user_props);
                with_prop_len(pl.finish(seed), &mut body);
            }
            body.extend_from_slice(&s.codes);
            finish(0x90, body)
        }
        Packet::Unsubscribe(u) => {
            let mut body = Vec::new();
            put_u16(u.packet_id, &mut body);
            if v5 {
                let mut pl = PropList::new();
                pl.user(&u.user_props);
                with_prop_len(pl.finish(seed), &mut body);
            }
            for f in &u.filters { put_str(f, &mut body); }
            finish(0xA2, body)
        }
        Packet::Unsuback(u) => {
            let mut body = Vec::new();
            put_u16(u.packet_id, &mut body);
            if v5 {
                let mut pl = PropList::new();
                pl.str(31, &u.reason_string);
                pl.user(&u.user_props);
                with_prop_len(pl.finish(seed), &mut body);
                body.extend_from_slice(&u.codes);
            }
            finish(0xB0, body)
        }
        Packet::Pingreq => vec![0xC0, 0],
        Packet::Pingresp => vec![0xD0, 0],
        Packet::Disconnect(d) => {
            let mut body = Vec::new();
            if v5 {
                let mut pl = PropList::new();
                pl.u32(17, d.session_expiry);
                pl.str(31, &d.reason_string);
                pl.user(&d.user_props);
                pl.str(28, &d.server_reference);
                let props = pl.finish(seed);
                if props.is_empty() && !knobs.no_elision {
                    if d.reason != 0 { body.push(d.reason); }
                } else {
                    body.push(d.reason);
                    with_prop_len(props, &mut body);
                }
            }
            finish(0xE0, body)
        }
        Packet::Auth(a) => {
            let mut body = Vec::new();
            let mut pl = PropList::new();
            pl.str(21, &a.authentication_method);
            pl.bin(22, &a.authentication_data);
            pl.str(31, &a.reason_string);
            pl.user(&a.user_props);
            let props = pl.finish(seed);
            if props.is_empty() && a.reason == 0 && !knobs.no_elision {
                // remaining length 0 allowed
            } else {
                body.push(a.reason);
                with_prop_len(props, &mut body);
            }
            finish(0xF0, body)
        }
    }
}

/* ------------------------------------------------------------------------------------------ */
/* Strict decoder                                                                              */
/* ------------------------------------------------------------------------------------------ */

pub type DResult<T> = Result<T, String>;

thread_local! {
    /// when false, semantic zero-checks on the topic alias property are skipped so that a hostile
    /// server stream can still be framed by the harness
    static STRICT: std::cell::Cell<bool> = std::cell::Cell::new(true);
    /// second-chance decoding of the client's own stream: accept the SUBSCRIBE subscription
    /// identifier as a 4-byte integer (a recorded defect of the crate under test) so that the
    /// monitors can keep following the stream after reporting the malformed packet
    static COMPAT_SUBSCRIBE_SUBID_U32: std::cell::Cell<bool> = std::cell::Cell::new(false);
}

fn with_compat<T>(f: impl FnOnce() -> T) -> T {
    let old = COMPAT_SUBSCRIBE_SUBID_U32.with(|s| s.replace(true));
    let r = f();
    COMPAT_SUBSCRIBE_SUBID_U32.with(|s| s.set(old));
    r
}

pub fn with_strictness<T>(strict: bool, f: impl FnOnce() -> T) -> T {
    let old = STRICT.with(|s| s.replace(strict));
    let r = f();
    STRICT.with(|s| s.set(old));
    r
}

struct Cur<'a> {
    b: &'a [u8],
    p: usize,
}

impl<'a> Cur<'a> {
    fn new(b: &'a [u8]) -> Cur<'a> { Cur { b, p: 0 } }
    fn left(&self) -> usize { self.b.len() - self.p }
    fn u8(&mut self, what: &str) -> DResult<u8> {
        if self.left() < 1 { return Err(format!("truncated:{}", what)); }
        let v = self.b[self.p];
        self.p += 1;
        Ok(v)
    }
    fn u16(&mut self, what: &str) -> DResult<u16> {
        if self.left() < 2 { return Err(format!("truncated:{}", what)); }
        let v = u16::from_be_bytes([self.b[self.p], self.b[self.p + 1]]);
        self.p += 2;
        Ok(v)
    }
    fn u32(&mut self, what: &str) -> DResult<u32> {
        if self.left() < 4 { return Err(format!("truncated:{}", what)); }
        let v = u32::from_be_bytes([self.b[self.p], self.b[self.p + 1], self.b[self.p + 2], self.b[self.p + 3]]);
        self.p += 4;
        Ok(v)
    }
    fn take(&mut self, n: usize, what: &str) -> DResult<&'a [u8]> {
        if self.left() < n { return Err(format!("truncated:{}", what)); }
        let s = &self.b[self.p..self.p + n];
        self.p += n;
        Ok(s)
    }
    fn bin(&mut self, what: &str) -> DResult<Vec<u8>> {
        let n = self.u16(what)? as usize;
        Ok(self.take(n, what)?.to_vec())
    }
    fn str(&mut self, what: &str) -> DResult<String> {
        let n = self.u16(what)? as usize;
        let s = self.take(n, what)?;
        let st = std::str::from_utf8(s).map_err(|_| format!("bad-utf8:{}", what))?;
        if st.contains('\u{0}') { return Err(format!("utf8-null:{}", what)); }
        Ok(st.to_string())
    }
    fn vbi(&mut self, what: &str) -> DResult<u32> {
        let mut v: u32 = 0;
        let mut shift = 0;
        for i in 0..4 {
            let b = self.u8(what)?;
            v |= ((b & 0x7F) as u32) << shift;
            shift += 7;
            if b & 0x80 == 0 {
                if i > 0 && b == 0 { return Err(format!("vbi-not-minimal:{}", what)); }
                return Ok(v);
            }
        }
        Err(format!("vbi-too-long:{}", what))
    }
    fn rest(&mut self) -> &'a [u8] {
        let s = &self.b[self.p..];
        self.p = self.b.len();
        s
    }
}

/// Property bag decoded from a property section
#[derive(Default)]
struct Props {
    bytes: std::collections::HashMap<u8, u8>,
    u16s: std::collections::HashMap<u8, u16>,
    u32s: std::collections::HashMap<u8, u32>,
    strs: std::collections::HashMap<u8, String>,
    bins: std::collections::HashMap<u8, Vec<u8>>,
    sub_ids: Vec<u32>,
    user: UserProps,
}

fn decode_props(c: &mut Cur, allowed: &[u8], multi_sub_id: bool, ctx: &str) -> DResult<Props> {
    let strict = STRICT.with(|s| s.get());
    let len = c.vbi(&format!("{}:property-length", ctx))? as usize;
    let section = c.take(len, &format!("{}:properties", ctx))?;
    let mut pc = Cur::new(section);
    let mut props = Props::default();
    let mut seen = std::collections::HashSet::new();
    while pc.left() > 0 {
        let id = pc.u8("property-id")?;
        if !allowed.contains(&id) {
            return Err(format!("{}:property-not-allowed:{}", ctx, id));
        }
        let repeatable = id == 38 || (id == 11 && multi_sub_id);
        if !repeatable && !seen.insert(id) {
            return Err(format!("{}:duplicate-property:{}", ctx, id));
        }
        let what = format!("{}:property:{}", ctx, id);
        match id {
            1 | 23 | 25 | 36 | 37 | 40 | 41 | 42 => {
                let v = pc.u8(&what)?;
                if v > 1 { return Err(format!("{}:property-value:{}:{}", ctx, id, v)); }
                props.bytes.insert(id, v);
            }
            19 | 33 | 34 | 35 => {
                let v = pc.u16(&what)?;
                if (id == 33 || (id == 35 && strict)) && v == 0 { return Err(format!("{}:property-zero:{}", ctx, id)); }
                props.u16s.insert(id, v);
            }
            2 | 17 | 24 | 39 => {
                let v = pc.u32(&what)?;
                if id == 39 && v == 0 { return Err(format!("{}:property-zero:{}", ctx, id)); }
                props.u32s.insert(id, v);
            }
            11 => {
                let compat = ctx == "SUBSCRIBE" && COMPAT_SUBSCRIBE_SUBID_U32.with(|s| s.get());
                let v = if compat { pc.u32(&what)? } else { pc.vbi(&what)? };
                if v == 0 { return Err(format!("{}:subscription-identifier-zero", ctx)); }
                props.sub_ids.push(v);
            }
            3 | 8 | 18 | 21 | 26 | 28 | 31 => {
                let v = pc.str(&what)?;
                props.strs.insert(id, v);
            }
            9 | 22 => {
                let v = pc.bin(&what)?;
                props.bins.insert(id, v);
            }
            38 => {
                let k = pc.str(&what)?;
                let v = pc.str(&what)?;
                props.user.push((k, v));
            }
            _ => return Err(format!("{}:unknown-property:{}", ctx, id)),
        }
    }
    Ok(props)
}

fn check_reason(table: &[u8], code: u8, ctx: &str) -> DResult<()> {
    if table.contains(&code) { Ok(()) } else { Err(format!("{}:reason-code-not-in-table:{:#x}", ctx, code)) }
}

fn decode_ack(body: &[u8], v5: bool, table: &[u8], ctx: &str) -> DResult<Ack> {
    let mut c = Cur::new(body);
    let mut ack = Ack::default();
    ack.packet_id = c.u16(&format!("{}:packet-id", ctx))?;
    if ack.packet_id == 0 { return Err(format!("{}:packet-id-zero", ctx)); }
    if !v5 {
        if c.left() != 0 { return Err(format!("{}:trailing", ctx)); }
        return Ok(ack);
    }
    if c.left() == 0 { return Ok(ack); }
    ack.reason = c.u8("reason")?;
    check_reason(table, ack.reason, ctx)?;
    if c.left() == 0 { return Ok(ack); }
    let props = decode_props(&mut c, &[31, 38], false, ctx)?;
    ack.reason_string = props.strs.get(&31).cloned();
    ack.user_props = props.user;
    if c.left() != 0 { return Err(format!("{}:trailing", ctx)); }
    Ok(ack)
}

pub fn decode_packet(first_byte: u8, body: &[u8], v5: bool) -> DResult<Packet> {
    let t = first_byte >> 4;
    let flags = first_byte & 0x0F;
    let mut c = Cur::new(body);
    match t {
        1 => {
            if flags != 0 { return Err("CONNECT:reserved-flags".into()); }
            let name = c.str("CONNECT:protocol-name")?;
            if name != "MQTT" { return Err("CONNECT:protocol-name".into()); }
            let level = c.u8("CONNECT:protocol-level")?;
            if level != if v5 { 5 } else { 4 } { return Err(format!("CONNECT:protocol-level:{}", level)); }
            let cf = c.u8("CONNECT:flags")?;
            if cf & 1 != 0 { return Err("CONNECT:reserved-connect-flag".into()); }
            let mut p = Connect::default();
            p.clean_start = cf & 2 != 0;
            let has_will = cf & 4 != 0;
            let will_qos = (cf >> 3) & 3;
            let will_retain = cf & 0x20 != 0;
            let has_pass = cf & 0x40 != 0;
            let has_user = cf & 0x80 != 0;
            if !has_will && (will_qos != 0 || will_retain) { return Err("CONNECT:will-flags-without-will".into()); }
            if will_qos == 3 { return Err("CONNECT:will-qos-3".into()); }
            if !v5 && has_pass && !has_user && !COMPAT_SUBSCRIBE_SUBID_U32.with(|s| s.get()) { return Err("CONNECT:password-without-username-311".into()); }
            p.keep_alive = c.u16("CONNECT:keep-alive")?;
            if v5 {
                let props = decode_props(&mut c, &[17, 33, 39, 34, 25, 23, 38, 21, 22], false, "CONNECT")?;
                p.session_expiry = props.u32s.get(&17).copied();
                p.receive_maximum = props.u16s.get(&33).copied();
                p.maximum_packet_size = props.u32s.get(&39).copied();
                p.topic_alias_maximum = props.u16s.get(&34).copied();
                p.request_response_information = props.bytes.get(&25).copied();
                p.request_problem_information = props.bytes.get(&23).copied();
                p.authentication_method = props.strs.get(&21).cloned();
                p.authentication_data = props.bins.get(&22).cloned();
                if p.authentication_data.is_some() && p.authentication_method.is_none() { return Err("CONNECT:auth-data-without-method".into()); }
                p.user_props = props.user;
            }
            p.client_id = c.str("CONNECT:client-id")?;
            if has_will {
                let mut w = Will::default();
                w.qos = will_qos;
                w.retain = will_retain;
                if v5 {
                    let props = decode_props(&mut c, &[24, 1, 2, 3, 8, 9, 38], false, "CONNECT:will")?;
                    w.will_delay = props.u32s.get(&24).copied();
                    w.payload_format = props.bytes.get(&1).copied();
                    w.message_expiry = props.u32s.get(&2).copied();
                    w.content_type = props.strs.get(&3).cloned();
                    w.response_topic = props.strs.get(&8).cloned();
                    w.correlation_data = props.bins.get(&9).cloned();
                    w.user_props = props.user;
                }
                w.topic = c.str("CONNECT:will-topic")?;
                w.payload = c.bin("CONNECT:will-payload")?;
                p.will = Some(w);
            }
            if has_user { p.username = Some(c.str("CONNECT:username")?); }
            if has_pass { p.password = Some(c.bin("CONNECT:password")?); }
            if c.left() != 0 { return Err("CONNECT:trailing".into()); }
            Ok(Packet::Connect(p))
        }
        2 => {
            if flags != 0 { return Err("CONNACK:reserved-flags".into()); }
            let mut p = Connack::default();
            let af = c.u8("CONNACK:ack-flags")?;
            if af > 1 { return Err("CONNACK:ack-flags".into()); }
            p.session_present = af == 1;
            p.reason = c.u8("CONNACK:reason")?;
            if v5 {
                check_reason(CONNACK_REASONS5, p.reason, "CONNACK")?;
                let props = decode_props(&mut c, &[17, 33, 36, 37, 39, 18, 34, 31, 38, 40, 41, 42, 19, 26, 28, 21, 22], false, "CONNACK")?;
                p.session_expiry = props.u32s.get(&17).copied();
                p.receive_maximum = props.u16s.get(&33).copied();
                p.maximum_qos = props.bytes.get(&36).copied();
                p.retain_available = props.bytes.get(&37).copied();
                p.maximum_packet_size = props.u32s.get(&39).copied();
                p.assigned_client_id = props.strs.get(&18).cloned();
                p.topic_alias_maximum = props.u16s.get(&34).copied();
                p.reason_string = props.strs.get(&31).cloned();
                p.user_props = props.user;
                p.wildcard_available = props.bytes.get(&40).copied();
                p.subscription_ids_available = props.bytes.get(&41).copied();
                p.shared_available = props.bytes.get(&42).copied();
                p.server_keep_alive = props.u16s.get(&19).copied();
                p.response_information = props.strs.get(&26).cloned();
                p.server_reference = props.strs.get(&28).cloned();
                p.authentication_method = props.strs.get(&21).cloned();
                p.authentication_data = props.bins.get(&22).cloned();
            } else {
                check_reason(CONNACK_RETURN_CODES311, p.reason, "CONNACK")?;
            }
            if p.reason != 0 && p.session_present { return Err("CONNACK:session-present-with-failure".into()); }
            if c.left() != 0 { return Err("CONNACK:trailing".into()); }
            Ok(Packet::Connack(p))
        }
        3 => {
            let mut p = Publish::default();
            p.dup = flags & 8 != 0;
            p.qos = (flags >> 1) & 3;
            p.retain = flags & 1 != 0;
            if p.qos == 3 { return Err("PUBLISH:qos-3".into()); }
            if p.qos == 0 && p.dup { return Err("PUBLISH:dup-with-qos0".into()); }
            p.topic = c.str("PUBLISH:topic")?;
            if p.qos > 0 {
                let id = c.u16("PUBLISH:packet-id")?;
                if id == 0 { return Err("PUBLISH:packet-id-zero".into()); }
                p.packet_id = Some(id);
            }
            if v5 {
                let props = decode_props(&mut c, &[1, 2, 35, 8, 9, 11, 3, 38], true, "PUBLISH")?;
                p.payload_format = props.bytes.get(&1).copied();
                p.message_expiry = props.u32s.get(&2).copied();
                p.topic_alias = props.u16s.get(&35).copied();
                p.response_topic = props.strs.get(&8).cloned();
                p.correlation_data = props.bins.get(&9).cloned();
                p.subscription_ids = props.sub_ids;
                p.content_type = props.strs.get(&3).cloned();
                p.user_props = props.user;
            }
            p.payload = c.rest().to_vec();
            Ok(Packet::Publish(p))
        }
        4 => { if flags != 0 { return Err("PUBACK:reserved-flags".into()); } Ok(Packet::Puback(decode_ack(body, v5, PUBACK_REASONS, "PUBACK")?)) }
        5 => { if flags != 0 { return Err("PUBREC:reserved-flags".into()); } Ok(Packet::Pubrec(decode_ack(body, v5, PUBREC_REASONS, "PUBREC")?)) }
        6 => { if flags != 2 { return Err("PUBREL:reserved-flags".into()); } Ok(Packet::Pubrel(decode_ack(body, v5, PUBREL_REASONS, "PUBREL")?)) }
        7 => { if flags != 0 { return Err("PUBCOMP:reserved-flags".into()); } Ok(Packet::Pubcomp(decode_ack(body, v5, PUBCOMP_REASONS, "PUBCOMP")?)) }
        8 => {
            if flags != 2 { return Err("SUBSCRIBE:reserved-flags".into()); }
            let mut p = Subscribe::default();
            p.packet_id = c.u16("SUBSCRIBE:packet-id")?;
            if p.packet_id == 0 { return Err("SUBSCRIBE:packet-id-zero".into()); }
            if v5 {
                let props = decode_props(&mut c, &[11, 38], false, "SUBSCRIBE")?;
                p.subscription_id = props.sub_ids.first().copied();
                p.user_props = props.user;
            }
            while c.left() > 0 {
                let mut s = Subscription::default();
                s.filter = c.str("SUBSCRIBE:filter")?;
                let o = c.u8("SUBSCRIBE:options")?;
                s.qos = o & 3;
                if s.qos == 3 { return Err("SUBSCRIBE:qos-3".into()); }
                if v5 {
                    if o & 0xC0 != 0 { return Err("SUBSCRIBE:reserved-option-bits".into()); }
                    s.no_local = o & 4 != 0;
                    s.retain_as_published = o & 8 != 0;
                    s.retain_handling = (o >> 4) & 3;
                    if s.retain_handling == 3 { return Err("SUBSCRIBE:retain-handling-3".into()); }
                } else if o & 0xFC != 0 {
                    return Err("SUBSCRIBE:reserved-option-bits".into());
                }
                p.subscriptions.push(s);
            }
            if p.subscriptions.is_empty() { return Err("SUBSCRIBE:no-subscriptions".into()); }
            Ok(Packet::Subscribe(p))
        }
        9 => {
            if flags != 0 { return Err("SUBACK:reserved-flags".into()); }
            let mut p = Suback::default();
            p.packet_id = c.u16("SUBACK:packet-id")?;
            if p.packet_id == 0 { return Err("SUBACK:packet-id-zero".into()); }
            if v5 {
                let props = decode_props(&mut c, &[31, 38], false, "SUBACK")?;
                p.reason_string = props.strs.get(&31).cloned();
                p.user_props = props.user;
            }
            p.codes = c.rest().to_vec();
            if p.codes.is_empty() { return Err("SUBACK:no-codes".into()); }
            for code in &p.codes {
                check_reason(if v5 { SUBACK_REASONS5 } else { SUBACK_RETURN_CODES311 }, *code, "SUBACK")?;
            }
            Ok(Packet::Suback(p))
        }
        10 => {
            if flags != 2 { return Err("UNSUBSCRIBE:reserved-flags".into()); }
            let mut p = Unsubscribe::default();
            p.packet_id = c.u16("UNSUBSCRIBE:packet-id")?;
            if p.packet_id == 0 { return Err("UNSUBSCRIBE:packet-id-zero".into()); }
            if v5 {
                let props = decode_props(&mut c, &[38], false, "UNSUBSCRIBE")?;
                p.user_props = props.user;
            }
            while c.left() > 0 {
                p.filters.push(c.str("UNSUBSCRIBE:filter")?);
            }
            if p.filters.is_empty() { return Err("UNSUBSCRIBE:no-filters".into()); }
            Ok(Packet::Unsubscribe(p))
        }
        11 => {
            if flags != 0 { return Err("UNSUBACK:reserved-flags".into()); }
            let mut p = Unsuback::default();
            p.packet_id = c.u16("UNSUBACK:packet-id")?;
            if p.packet_id == 0 { return Err("UNSUBACK:packet-id-zero".into()); }
            if v5 {
                let props = decode_props(&mut c, &[31, 38], false, "UNSUBACK")?;
                p.reason_string = props.strs.get(&31).cloned();
                p.user_props = props.user;
                p.codes = c.rest().to_vec();
                if p.codes.is_empty() { return Err("UNSUBACK:no-codes".into()); }
                for code in &p.codes { check_reason(UNSUBACK_REASONS, *code, "UNSUBACK")?; }
            } else if c.left() != 0 {
                return Err("UNSUBACK:trailing".into());
            }
            Ok(Packet::Unsuback(p))
        }
        12 => {
            if flags != 0 { return Err("PINGREQ:reserved-flags".into()); }
            if !body.is_empty() { return Err("PINGREQ:body".into()); }
            Ok(Packet::Pingreq)
        }
        13 => {
            if flags != 0 { return Err("PINGRESP:reserved-flags".into()); }
            if !body.is_empty() { return Err("PINGRESP:body".into()); }
            Ok(Packet::Pingresp)
        }
        14 => {
            if flags != 0 { return Err("DISCONNECT:reserved-flags".into()); }
            let mut p = Disconnect::default();
            if !v5 {
                if !body.is_empty() { return Err("DISCONNECT:body-311".into()); }
                return Ok(Packet::Disconnect(p));
            }
            if c.left() == 0 { return Ok(Packet::Disconnect(p)); }
            p.reason = c.u8("DISCONNECT:reason")?;
            check_reason(DISCONNECT_REASONS_ALL, p.reason, "DISCONNECT")?;
            if c.left() == 0 { return Ok(Packet::Disconnect(p)); }
            let props = decode_props(&mut c, &[17, 31, 38, 28], false, "DISCONNECT")?;
            p.session_expiry = props.u32s.get(&17).copied();
            p.reason_string = props.strs.get(&31).cloned();
            p.user_props = props.user;
            p.server_reference = props.strs.get(&28).cloned();
            if c.left() != 0 { return Err("DISCONNECT:trailing".into()); }
            Ok(Packet::Disconnect(p))
        }
        15 => {
            if !v5 { return Err("AUTH:not-in-311".into()); }
            if flags != 0 { return Err("AUTH:reserved-flags".into()); }
            let mut p = Auth::default();
            if c.left() == 0 { return Ok(Packet::Auth(p)); }
            p.reason = c.u8("AUTH:reason")?;
            check_reason(AUTH_REASONS, p.reason, "AUTH")?;
            if c.left() == 0 { return Ok(Packet::Auth(p)); }
            let props = decode_props(&mut c, &[21, 22, 31, 38], false, "AUTH")?;
            p.authentication_method = props.strs.get(&21).cloned();
            p.authentication_data = props.bins.get(&22).cloned();
            p.reason_string = props.strs.get(&31).cloned();
            p.user_props = props.user;
            if c.left() != 0 { return Err("AUTH:trailing".into()); }
            Ok(Packet::Auth(p))
        }
        _ => Err(format!("reserved-packet-type:{}", t)),
    }
}

/// One complete packet recovered from a stream
#[derive(Clone, Debug)]
pub struct Framed {
    pub packet: Packet,
    /// offset of the first byte of the packet within the stream
    pub start: usize,
    /// offset one past the last byte
    pub end: usize,
}

/// Incremental strict stream decoder.  After an error it stays failed.
pub struct StreamDecoder {
    v5: bool,
    pub lenient: bool,
    buf: Vec<u8>,
    consumed: usize,
    pub error: Option<String>,
    /// packets that only decoded in compatibility mode: (strict error, packet index)
    pub soft_errors: Vec<String>,
    pub compat: bool,
}

impl StreamDecoder {
    pub fn new(v5: bool) -> StreamDecoder {
        StreamDecoder { v5, lenient: false, buf: Vec::new(), consumed: 0, error: None, soft_errors: Vec::new(), compat: false }
    }

    /// bytes received so far that do not yet form a complete packet
    pub fn pending(&self) -> usize { self.buf.len() }
    pub fn total_consumed(&self) -> usize { self.consumed }

    pub fn feed(&mut self, bytes: &[u8]) -> Vec<Framed> {
        let mut out = Vec::new();
        if self.error.is_some() {
            return out;
        }
        self.buf.extend_from_slice(bytes);
        loop {
            if self.buf.len() < 2 { break; }
            // remaining length
            let mut rl: usize = 0;
            let mut shift = 0;
            let mut n = 0;
            let mut complete = false;
            let mut bad: Option<String> = None;
            for i in 0..4 {
                if 1 + i >= self.buf.len() { break; }
                let b = self.buf[1 + i];
                rl |= ((b & 0x7F) as usize) << shift;
                shift += 7;
                n = i + 1;
                if b & 0x80 == 0 {
                    if i > 0 && b == 0 { bad = Some("remaining-length-not-minimal".to_string()); }
                    complete = true;
                    break;
                }
                if i == 3 { bad = Some("remaining-length-too-long".to_string()); }
            }
            if let Some(e) = bad {
                self.error = Some(e);
                break;
            }
            if !complete { break; }
            let total = 1 + n + rl;
            if self.buf.len() < total { break; }
            let first = self.buf[0];
            let body: Vec<u8> = self.buf[1 + n..total].to_vec();
            let decoded = if self.lenient { with_strictness(false, || decode_packet(first, &body, self.v5)) } else { decode_packet(first, &body, self.v5) };
            let decoded = match decoded {
                Err(e) if self.compat => {
                    match with_compat(|| decode_packet(first, &body, self.v5)) {
                        Ok(p) => { self.soft_errors.push(e); Ok(p) }
                        Err(_) => Err(e),
                    }
                }
                other => other,
            };
            match decoded {
                Ok(packet) => {
                    out.push(Framed { packet, start: self.consumed, end: self.consumed + total });
                    self.consumed += total;
                    self.buf.drain(..total);
                }
                Err(e) => {
                    self.error = Some(e);
                    break;
                }
            }
        }
        out
    }
}

/// Like decode_all but accepting the recorded SUBSCRIBE subscription-identifier-as-u32 encoding
pub fn decode_all_compat(bytes: &[u8], v5: bool) -> DResult<Vec<Packet>> {
    with_compat(|| decode_all(bytes, v5))
}

/// Decode a complete byte string into packets; error if anything is left over or malformed
pub fn decode_all(bytes: &[u8], v5: bool) -> DResult<Vec<Packet>> {
    let mut d = StreamDecoder::new(v5);
    let framed = d.feed(bytes);
    if let Some(e) = d.error { return Err(e); }
    if d.pending() != 0 { return Err(format!("incomplete-trailing-bytes:{}", d.pending())); }
    Ok(framed.into_iter().map(|f| f.packet).collect())
}

/* ------------------------------------------------------------------------------------------ */
/* Topic grammar (MQTT 5.0 section 4.7)                                                        */
/* ------------------------------------------------------------------------------------------ */

pub fn topic_name_valid(t: &str) -> bool {
    !t.is_empty() && t.len() <= 65535 && !t.contains('#') && !t.contains('+') && !t.contains('\u{0}')
}

#[derive(Clone, Copy, Debug, PartialEq, Eq)]
pub struct FilterInfo {
    pub valid: bool,
    pub wildcard: bool,
    /// `$share/{name}/{filter}` with a non-empty name without wildcards and a non-empty filter
    pub well_formed_shared: bool,
    /// begins with `$share/` but is not a well formed shared subscription
    pub malformed_shared: bool,
}

pub fn filter_info(f: &str) -> FilterInfo {
    let mut info = FilterInfo { valid: true, wildcard: false, well_formed_shared: false, malformed_shared: false };
    if f.is_empty() || f.len() > 65535 || f.contains('\u{0}') {
        info.valid = false;
        return info;
    }
    let levels: Vec<&str> = f.split('/').collect();
    for (i, l) in levels.iter().enumerate() {
        if l.contains('#') {
            if *l != "#" || i != levels.len() - 1 { info.valid = false; }
            info.wildcard = true;
        }
        if l.contains('+') {
            if *l != "+" { info.valid = false; }
            info.wildcard = true;
        }
    }
    if levels[0] == "$share" {
        let ok = levels.len() >= 3 && !levels[1].is_empty() && !levels[1].contains('#') && !levels[1].contains('+') && !(levels.len() == 3 && levels[2].is_empty());
        if ok { info.well_formed_shared = true; } else { info.malformed_shared = true; }
    }
    info
}
